"""Rules added after the ninth round of independently seeded changes."""
import re

from astlib import walk, expr_text, pat_text, AnchorMissing
from core import rule
import genmodel


# ----------------------------------------------------------------------------- C01 (sequence points)
#
# A postfix ++/-- is not emitted where it is met: generate_expr pushes it on `deferred_plusplus` and
# someone has to apply ("purge") the list.  C fixes the latest point where that may happen: the end
# of the full expression, the comma, the call (after the arguments), the first operand of && || ?:,
# and - because the side effect belongs to the evaluation, not to one of its outcomes - before
# control can leave the evaluation along one branch only.

PURGES = ("purge_deferred_plusplus_since", "purge_deferred_plusplus_and_savey", "purge_alternative_plusplus")
FULL_EXPRESSION_ENDS = ("generate_statement", "generate_for_loop", "generate_return", "purge_deferred_plusplus_and_savey")
BRANCHES = {"JMP", "JSR", "BEQ", "BNE", "BCC", "BCS", "BMI", "BPL", "BVC", "BVS"}
LEAVING_CALLS = ("label", "push_code", "generate_condition_ex", "generate_condition_16bits",
                 "generate_branch_instruction", "generate_branch_instruction_alt")
EMITTERS = ("asm", "sasm", "sasm_protected", "label", "push_code", "inline")


def _self_call(n, names=None):
    return (isinstance(n, dict) and n.get("k") == "mcall" and n["recv"].get("k") == "path" and n["recv"]["segs"] == ["self"]
            and (names is None or n["method"] in names))


def _unwrap_try(n):
    while isinstance(n, dict) and n.get("k") in ("try", "paren"):
        n = n["e"]
    return n


def _disjuncts(e):
    while isinstance(e, dict) and e.get("k") == "paren":
        e = e["e"]
    if isinstance(e, dict) and e.get("k") == "binary" and e["op"] == "||":
        return _disjuncts(e["l"]) + _disjuncts(e["r"])
    return [e]


def _is_purge_stmt(s):
    """`self.purge_*()?;` or `if !self.deferred_plusplus.is_empty() [|| ..] { ..; self.purge_*()?; }` -> name of the purge, or None"""
    c = _unwrap_try(s)
    if _self_call(c, PURGES):
        return c["method"]
    if isinstance(s, dict) and s.get("k") == "if" and s.get("else") is None:
        ds = [expr_text(d).replace(" ", "").strip("()") for d in _disjuncts(s["cond"])]
        if "!self.deferred_plusplus.is_empty" in ds or "!self.deferred_plusplus.is_empty()" in ds:
            for x in (s["then"].get("stmts") or []):
                nm = _is_purge_stmt(x)
                if nm:
                    # the saved Y is restored only if that is a reason to enter, too
                    if nm == "purge_deferred_plusplus_and_savey" and "self.saved_y" not in ds:
                        return "purge_deferred_plusplus"
                    return nm
    return None


def _leaving(n):
    """Does this call emit something after which control may be elsewhere (a label, a jump, a branch, a return)?"""
    if not _self_call(n):
        return None
    m = n["method"]
    if m in LEAVING_CALLS:
        return m
    if m == "asm" and n.get("args"):
        a0 = n["args"][0]
        if a0.get("k") == "path" and a0["segs"][-1] in BRANCHES:
            return a0["segs"][-1]
        if a0.get("k") != "path" or a0["segs"][-1][0].islower():
            # a computed mnemonic: a branch unless the operand is visibly not a label
            if len(n["args"]) > 1 and "Label" in expr_text(n["args"][1]):
                return "branch"
    if m == "sasm" and n.get("args") and n["args"][0].get("k") == "path" and n["args"][0]["segs"][-1] in ("RTS", "RTI"):
        return n["args"][0]["segs"][-1]
    return None


def _function_exit(n):
    if not _self_call(n):
        return False
    if n["method"] == "sasm" and n.get("args") and n["args"][0].get("k") == "path" and n["args"][0]["segs"][-1] in ("RTS", "RTI"):
        return True
    if n["method"] == "asm" and len(n.get("args", [])) > 1 and n["args"][0].get("k") == "path" and n["args"][0]["segs"][-1] == "JMP" and ".endof" in expr_text(n["args"][1]):
        return True
    return False


def _emitting(n):
    if not _self_call(n):
        return None
    m = n["method"]
    if m in EMITTERS or (m.startswith("generate_") and m != "generate_included_source_code_line"):
        return m
    return None


def _parents(body):
    par = {}

    def rec(n, p, key, idx):
        if isinstance(n, dict):
            par[id(n)] = (p, key, idx)
            for k, v in n.items():
                if k in ("loc", "pat"):
                    continue
                if isinstance(v, dict):
                    rec(v, n, k, None)
                elif isinstance(v, list):
                    for i, x in enumerate(v):
                        if isinstance(x, dict):
                            rec(x, n, k, i)
    rec(body, None, None, None)
    return par


def _after(node, par):
    """The pieces of code evaluated after `node` on a normal path of its function, in order, as
    (statement, same_iteration): later statements of every enclosing block, the arms / branches
    of a match / if whose scrutinee / condition contains the node."""
    cur = node
    while True:
        p, key, idx = par.get(id(cur), (None, None, None))
        if p is None:
            return
        k = p.get("k")
        if k == "block" and key == "stmts":
            for s in p["stmts"][idx + 1:]:
                yield s
        elif k == "match" and key == "e":
            for a in p["arms"]:
                yield a["body"]
        elif k == "if" and key == "cond":
            yield p["then"]
            if p.get("else") is not None:
                yield p["else"]
        elif k == "closure":
            return
        cur = p


def _first_after(node, par, what):
    """Scan the code after `node`: -> ('purge', stmt) | ('hit', call, name) | None.
    A purge only counts as a statement of its own (not nested in a condition other than the
    emptiness test), `what(call)` names the calls looked for."""
    for s in _after(node, par):
        nm = _is_purge_stmt(s)
        if nm:
            return ("purge", s, nm)
        for x in walk(s):
            nm = what(x)
            if nm:
                return ("hit", x, nm)
    return None


def _arg_text(c):
    return expr_text(c["args"][0]).replace(" ", "").lstrip("&") if c.get("args") else "?"


@rule("T-SEQ-POINT", floor=12,
      text="a postfix ++/-- is queued on `deferred_plusplus` by generate_expr and takes effect when the queue is purged.  Decided: "
           "(discard) wherever the generator evaluates an expression for its side effects only (`self.generate_expr(..)?;` as a statement: the "
           "expression statement, the left operand of a comma, the init and update of a for, each argument assignment of a call), the next thing it "
           "does that emits code is a purge; (leave) between any direct call of generate_expr and a later label, jump, branch, JSR, RTS or inline "
           "expansion emitted by the same function there is a purge - otherwise the side effect happens on one of the paths only, or after the callee "
           "ran, or never; (condition) the one function exempt from (leave), the comparison-and-branch emitter, is called by its wrapper only, and the "
           "wrapper applies what the operands left pending on the fall-through path and on the taken path (two emission loops separated by the "
           "definition of the local taken label, the taken path then jumps to the caller's label), unless the condition is compound (each operand then "
           "passes through the wrapper itself) or has no postfix ++/-- at all (has_post_incdec, a match over Expr without catch-all arm whose `false` "
           "arms bind no sub-expression).  Not decided: that the purge emits the right instruction")
def t_seq_point(facts, res, tier):
    fns = genmodel.gen_fns(facts)
    purgers = [f for f in fns if f["name"] in PURGES]
    if len(purgers) < 2:
        raise AnchorMissing("purge functions of deferred_plusplus not found (%s)" % [f["name"] for f in purgers])
    for f in purgers:
        t = expr_text(f["body"])
        if "deferred_plusplus" not in t and not any(_self_call(x, PURGES) for x in walk(f["body"])):
            raise AnchorMissing("%s does not touch deferred_plusplus" % f["name"])
    # (scope) a sequence point inside an expression completes its own operands only
    from scopes import scoped as _scoped
    for f in fns:
        if not any(_self_call(x, PURGES) for x in walk(f["body"])):
            continue
        for node, env, doms in _scoped(f):
            if not _self_call(node, PURGES):
                continue
            whole = node["method"] == "purge_deferred_plusplus_and_savey"
            mark = None
            if node["method"] != "purge_deferred_plusplus_and_savey":
                a = node["args"][0] if node.get("args") else {}
                if a.get("k") == "lit" and str(a.get("v")) == "0":
                    whole = True
                elif a.get("k") == "path" and len(a["segs"]) == 1:
                    b = env.get(a["segs"][0])
                    if b is not None and b.src == "param":
                        mark = "parameter %s" % b.name
                    elif b is not None and b.src == "let" and b.init is not None and expr_text(b.init).replace(" ", "") == "self.deferred_plusplus.len()":
                        mark = "length taken in %s" % f["name"]
            key = "T-SEQ-POINT:scope:%s:%s" % (f["name"], node["method"])
            res.inst(key, True, {"function": f["name"], "purge": node["method"], "applies": "the whole list" if whole else (mark or "?")})
            if whole and f["name"] not in FULL_EXPRESSION_ENDS:
                res.fail(key, facts.where(f, node), "%s applies the whole list of pending ++/-- although it is not the end of a full expression: the entries of the enclosing expression are applied before the operands they belong to have been read (`r = j++ + f(1)` adds the incremented j)" % f["name"])
            if not whole and mark is None:
                res.fail(key, facts.where(f, node), "%s purges from a mark that is neither a parameter nor the length of the list taken in this function" % f["name"])
            if not whole and mark and mark.startswith("length"):
                # the mark is taken before the operands it closes are evaluated
                b = env[node["args"][0]["segs"][0]]
                def line(n):
                    try:
                        return int(str(n.get("loc", "0:0")).split(":")[0])
                    except ValueError:
                        return 0
                let_line = min([line(x) for x in walk(f["body"]) if x.get("k") == "let" and x.get("init") is b.init] or [0])
                evals = [line(x) for x in walk(f["body"]) if _self_call(x, ("generate_expr", "generate_condition", "generate_simple_condition")) and let_line < line(x) <= line(node)]
                if not evals:
                    res.fail(key + ":mark", facts.where(f, node), "%s takes the mark of its purge after the operands were evaluated: nothing they left pending is applied" % f["name"])
    # who queues: generate_expr only
    for f in fns:
        for x in walk(f["body"]):
            if x.get("k") == "mcall" and x["method"] == "push" and "deferred_plusplus" in expr_text(x["recv"]) and f["name"] != "generate_expr":
                res.fail("T-SEQ-POINT:queue:%s" % f["name"], facts.where(f, x), "%s queues a ++/-- outside generate_expr: the sites that must purge are derived from the calls of generate_expr" % f["name"])
    # the comparison-and-branch emitter and its wrapper
    simple = [f for f in fns if any(p.get("name") == "immediate_special" for p in f["params"])]
    wrapper = None
    inner = None
    for f in simple:
        if any(_self_call(x, ("generate_expr",)) for x in walk(f["body"])):
            inner = f
        else:
            wrapper = f
    if inner is None or wrapper is None:
        raise AnchorMissing("condition emitter / wrapper pair not found among %s" % [f["name"] for f in simple])
    n_sites = 0
    for f in fns:
        par = None
        seen = {}
        for c in walk(f["body"]):
            if not _self_call(c, ("generate_expr",)):
                continue
            if par is None:
                par = _parents(f["body"])
            n_sites += 1
            arg = _arg_text(c)
            # the statement the call sits in
            top = c
            p, key, idx = par[id(top)]
            while p is not None and p.get("k") in ("try", "paren"):
                top = p
                p, key, idx = par[id(top)]
            discarded = p is not None and p.get("k") == "block" and key == "stmts" and (top.get("semi") or top is not p["stmts"][-1]) and top.get("k") == "try" and top.get("semi")
            # the innermost enclosing match arm names the case being generated
            armp = None
            q = c
            while q is not None and armp is None:
                pq, kq, _ = par.get(id(q), (None, None, None))
                if pq is not None and kq == "arms":
                    armp = pat_text(q["pat"]).replace(" ", "")[:40]
                q = pq
            base = "T-SEQ-POINT:%s:%s%s" % (f["name"], (armp + ":") if armp else "", arg)
            k = seen.get(base, 0)
            seen[base] = k + 1
            if k:
                base += "#%d" % (k + 1)
            if discarded:
                r = _first_after(top, par, _emitting)
                ok = r is not None and r[0] == "purge"
                res.inst(base + ":discard", True, {"function": f["name"], "expression": arg, "then": r[2] if r else "end of function"})
                if not ok:
                    res.fail(base + ":discard", facts.where(f, c),
                             "%s evaluates `%s` for its side effects only and then %s without applying the pending postfix ++/--: they take effect "
                             "after the sequence point (after the comma, inside the next clause of the for, after the callee ran)" % (
                                 f["name"], arg, ("emits code through %s" % r[2]) if r else "returns"))
                continue
            if f is inner:
                res.inst(base + ":condition", True, {"function": f["name"], "expression": arg, "discipline": "called by %s only" % wrapper["name"]})
                continue
            r = _first_after(top, par, _leaving)
            if r is None or r[0] == "purge":
                res.inst(base + ":leave", True, {"function": f["name"], "expression": arg, "then": r[2] if r else "nothing that leaves"})
                # leaving the *function*: the Y register saved for an index (saved_y) is restored as well
                if r is not None and r[2] != "purge_deferred_plusplus_and_savey":  # (the whole list and the saved Y)
                    exits = [x for s2 in _after(r[1], par) for x in walk(s2) if _function_exit(x)]
                    if exits:
                        res.fail(base + ":leave:saved-y", facts.where(f, exits[0]),
                                 "%s evaluates `%s`, applies the pending ++/-- with %s and then leaves the function: a Y register saved for an index of the expression (saved_y) "
                                 "is restored after the RTS only, the caller gets the index in Y" % (f["name"], arg, r[2]))
            else:
                res.inst(base + ":leave", True, {"function": f["name"], "expression": arg, "then": r[2]})
                res.fail(base + ":leave", facts.where(f, c),
                         "%s evaluates `%s` and later emits %s while a postfix ++/-- of the expression may still be pending: it then takes effect on one "
                         "of the paths only, or after control has left" % (f["name"], arg, r[2]))
    # (condition) who may call the emitter
    for f in fns:
        for x in walk(f["body"]):
            if _self_call(x, (inner["name"],)) and f is not wrapper:
                res.fail("T-SEQ-POINT:condition:caller:%s" % f["name"], facts.where(f, x),
                         "%s calls %s directly: the postfix ++/-- of the operands are then applied on the fall-through path only" % (f["name"], inner["name"]))
    _check_wrapper(facts, res, wrapper, inner)
    res.note("%d generate_expr call sites" % n_sites)


def _check_wrapper(facts, res, w, inner):
    key = "T-SEQ-POINT:condition:%s" % w["name"]
    label_param = None
    for p in w["params"]:
        if p.get("name") == "label":
            label_param = "label"
    if label_param is None:
        raise AnchorMissing("%s has no `label` parameter" % w["name"])
    stmts = w["body"].get("stmts") or []
    calls = [(i, x) for i, s in enumerate(stmts) for x in walk(s) if _self_call(x, (inner["name"],))]
    res.inst(key, True, {"wrapper": w["name"], "emitter": inner["name"], "calls": len(calls)})
    if len(calls) != 2:
        raise AnchorMissing("%s: expected the direct and the protected call of %s, found %d" % (w["name"], inner["name"], len(calls)))
    (i0, direct), (i1, prot) = calls
    # the direct call: under `compound || !has_post_incdec(condition)`
    s0 = stmts[i0]
    ok = s0.get("k") == "if" and any(x is direct for x in walk(s0["then"]))
    disj = []
    if ok:
        def split(e):
            e2 = e
            while e2.get("k") == "paren":
                e2 = e2["e"]
            if e2.get("k") == "binary" and e2["op"] == "||":
                return split(e2["l"]) + split(e2["r"])
            return [e2]
        disj = [expr_text(x).replace(" ", "") for x in split(s0["cond"])]
    cond_param = expr_text(direct["args"][0]).replace(" ", "") if direct.get("args") else "?"
    want_np = "!has_post_incdec(%s)" % cond_param
    others = [d for d in disj if d != want_np]
    if not ok or want_np not in disj:
        res.fail(key + ":direct", facts.where(w, direct), "%s hands the condition to %s with the caller's label without having excluded a postfix ++/-- in it (`%s` is not among the guards: %s)" % (w["name"], inner["name"], want_np, disj))
    for d in others:
        # must be a local bound to matches!(condition, Expr::Not(_) | Expr::BinOp { op: Land | Lor, .. })
        bound = None
        for s in stmts[:i0]:
            if s.get("k") == "let" and s["pat"].get("k") == "ident" and s["pat"]["name"] == d:
                bound = s["init"]
        good = False
        if bound is not None and bound.get("k") == "macro" and bound.get("name") == "matches" and bound.get("pat") is not None and bound.get("guard") is None:
            alts = bound["pat"].get("alts") if bound["pat"].get("k") == "or" else [bound["pat"]]
            good = expr_text(bound["e"]).replace(" ", "") == cond_param
            for a in alts:
                t = pat_text(a).replace(" ", "")
                if re.match(r"^Expr::Not\(_\)$", t):
                    continue
                if a.get("k") == "struct" and a["segs"][-1] == "BinOp":
                    ops = [fl for fl in a.get("fields", []) if fl.get("name") == "op"]
                    if len(ops) == 1:
                        op = ops[0].get("pat") or {}
                        oalts = op.get("alts") if op.get("k") == "or" else [op]
                        if all(pat_text(o).replace(" ", "") in ("Operation::Land", "Operation::Lor") for o in oalts):
                            continue
                good = False
        res.inst(key + ":guard:" + d, True, {"guard": d})
        if not good:
            res.fail(key + ":guard:" + d, facts.where(w, s0), "%s skips the both-paths protocol under `%s`, which is not the test for a compound condition (!, &&, ||: the only conditions whose operands pass through %s again)" % (w["name"], d, w["name"]))
    # the protected call: local label, then split_off(before), loop, [jump, label taken, loop, jump label, label]
    larg = None
    for a in prot.get("args", []):
        t = expr_text(a).replace(" ", "").lstrip("&")
        if t.endswith("_label"):
            larg = t
    if larg is None or larg == label_param:
        res.fail(key + ":protected", facts.where(w, prot), "%s: the protected call of %s does not branch to a label of its own" % (w["name"], inner["name"]))
        return
    seq = []  # ordered events after the protected call
    before_ok = False
    for s in stmts[:i1]:
        if s.get("k") == "let" and expr_text(s.get("init") or {}).replace(" ", "") == "self.deferred_plusplus.len()":
            before_name = s["pat"].get("name")
            before_ok = True
    for s in stmts[i1 + 1:]:
        for x in walk(s):
            if x.get("k") == "mcall" and x["method"] == "split_off" and "deferred_plusplus" in expr_text(x["recv"]):
                seq.append(("split", expr_text(x["args"][0]).replace(" ", "")))
            elif x.get("k") == "for" and any(_self_call(y, ("generate_plusplus",)) for y in walk(x["body"])):
                seq.append(("apply", expr_text(x["iter"]).replace(" ", "").lstrip("&")))
            elif _self_call(x, ("label",)):
                seq.append(("label", expr_text(x["args"][0]).replace(" ", "").lstrip("&")))
            elif _self_call(x, ("asm",)) and x["args"][0].get("k") == "path" and x["args"][0]["segs"][-1] == "JMP":
                t = expr_text(x["args"][1]).replace(" ", "")
                m = re.search(r"Label\((\w+)", t)
                seq.append(("jmp", m.group(1) if m else t))
    kinds = [k for k, _ in seq]
    res.inst(key + ":protocol", True, {"sequence": ["%s %s" % kv for kv in seq]})
    problems = []
    if not before_ok or ("split", before_name if before_ok else "") not in seq:
        problems.append("the pending list is not cut at its length before the operands were evaluated")
    try:
        i_split = kinds.index("split")
        i_lab = seq.index(("label", larg))
        applies = [i for i, k in enumerate(kinds) if k == "apply"]
        if not any(i_split < i < i_lab for i in applies):
            problems.append("nothing is applied on the fall-through path")
        i_jl = seq.index(("jmp", label_param))
        if not any(i_lab < i < i_jl for i in applies):
            problems.append("nothing is applied on the taken path before it jumps to the caller's label")
        skip = [v for k, v in seq[i_split:i_lab] if k == "jmp"]
        if len(skip) != 1 or ("label", skip[0]) not in seq[i_jl:]:
            problems.append("the fall-through path does not jump over the taken path to a label defined after it")
        # the two loops iterate the same list
        its = {seq[i][1] for i in applies}
        if len(its) != 1:
            problems.append("the two paths apply different lists (%s)" % sorted(its))
    except ValueError:
        problems.append("taken label `%s` / jump to the caller's label not found after the protected call" % larg)
    for pr in problems:
        res.fail(key + ":protocol", facts.where(w, prot), "%s: %s" % (w["name"], pr))
    # has_post_incdec
    h = [f for f in facts.fns if f["name"] == "has_post_incdec"]
    if len(h) != 1:
        raise AnchorMissing("has_post_incdec not found")
    h = h[0]
    hm = [m for m in walk(h["body"]) if m.get("k") == "match"]
    if len(hm) != 1:
        raise AnchorMissing("has_post_incdec: one match expected")
    variants = set(facts.enum_variants("Expr"))
    covered = set()
    for arm in hm[0]["arms"]:
        p = arm["pat"]
        alts = p.get("alts") if p.get("k") == "or" else [p]
        body = expr_text(arm["body"]).replace(" ", "")
        hkey = "T-SEQ-POINT:has_post_incdec:%s" % pat_text(p).replace(" ", "")[:60]
        res.inst(hkey, True, {"returns": body[:60]})
        for a in alts:
            if a.get("k") in ("wild", "ident") and a.get("name", "_") not in variants:
                res.fail(hkey, facts.where(h, arm["body"]), "has_post_incdec has a catch-all arm: a new kind of expression is taken to have no postfix ++/--")
                continue
            v = (a.get("segs") or ["?"])[-1]
            covered.add(v)
            names = [b for b in re.findall(r"\b[a-z_][a-z0-9_]*\b", pat_text(a)) if b not in ("true", "false", "_", "ref", "mut")]
            post = v in ("PlusPlus", "MinusMinus") and pat_text(a).replace(" ", "").endswith(",true)")
            if post and body != "true":
                res.fail(hkey, facts.where(h, arm["body"]), "has_post_incdec answers `%s` for a postfix ++/--" % body)
            if body == "false" and v not in ("Nothing", "Integer", "Sizeof", "Type", "TmpId"):
                res.fail(hkey, facts.where(h, arm["body"]), "has_post_incdec answers false for Expr::%s without looking at its operands" % v)
            if not post and body != "false":
                for nm in names:
                    if not re.search(r"has_post_incdec\(%s\)" % nm, body):
                        res.fail(hkey, facts.where(h, arm["body"]), "has_post_incdec does not look into operand `%s` of Expr::%s" % (nm, v))
    if variants - covered:
        res.fail("T-SEQ-POINT:has_post_incdec:coverage", facts.where(h), "has_post_incdec does not name Expr variants %s" % sorted(variants - covered))


# ----------------------------------------------------------------------------- C03 / C14 (label identity)


def _mentions(e, name):
    return any(x.get("k") == "path" and x["segs"] == [name] for x in walk(e))


@rule("T-LABEL-IDENTITY", floor=3,
      text="wherever the assembler layer relates the name of a label line (a binding of the payload of AsmLine::Label) to the operand of an instruction "
           "(`dasm_operand`) - to find the target of a branch, or a jump to the next line - the two are compared for equality of the whole name (`==` / `!=`, "
           "directly or through a helper whose body is that comparison).  Local labels differ by numeric suffix and by the `inlineN` suffix only "
           "(.for1 / .for10 / .for1inline2), so a prefix, suffix or substring test takes the wrong line for the target: a branch is measured against "
           "another label (out of range or needlessly long), or a needed jump is deleted")
def t_label_identity(facts, res, tier):
    from scopes import scoped
    n = 0
    for fn in facts.fns:
        if not fn["file"].endswith("assemble.rs"):
            continue
        for node, env, doms in scoped(fn):
            k = node.get("k")
            if k not in ("binary", "mcall", "call", "macro"):
                continue
            labels = [b.name for b in env.values() if b.ctor and b.ctor[-1] == "Label" and b.src == "pat"]
            if not labels:
                continue
            if k == "binary":
                sides = [node["l"], node["r"]]
            elif k == "mcall":
                sides = [node["recv"]] + list(node.get("args", []))
            elif k == "call":
                sides = list(node.get("args", []))
            else:
                continue
            lab = [s for s in sides if any(_mentions(s, l) for l in labels)]
            opd = [s for s in sides if "dasm_operand" in expr_text(s)]
            if not any(a is not b for a in lab for b in opd):
                continue
            if k == "binary" and node["op"] in ("&&", "||"):
                continue
            n += 1
            how = node["op"] if k == "binary" else (node["method"] if k == "mcall" else expr_text(node["func"]))
            key = "T-LABEL-IDENTITY:%s:%s" % (fn["name"], how)
            res.inst(key, True, {"function": fn["name"], "relation": expr_text(node)[:80]})
            ok = k == "binary" and node["op"] in ("==", "!=")
            if k == "mcall" and node["method"] in ("eq", "ne"):
                ok = True
            if k == "call":
                callee = [f for f in facts.fns if f["name"] == how.split("::")[-1]]
                if len(callee) == 1:
                    body = callee[0]["body"]
                    stmts = body.get("stmts") or []
                    if len(stmts) == 1:
                        e = stmts[0]
                        while e.get("k") == "paren":
                            e = e["e"]
                        ps = [p.get("name") for p in callee[0]["params"]]
                        if e.get("k") == "binary" and e["op"] in ("==", "!=") and len(ps) == 2 and all(_mentions(e, p) for p in ps):
                            ok = True
            if not ok:
                res.fail(key, facts.where(fn, node), "%s relates a label line to a branch operand with `%s`, which is not equality of the whole name: .for1 then also matches .for10 and .for1inline2" % (fn["name"], expr_text(node)[:80]))
    res.note("%d label/operand relations" % n)


# ----------------------------------------------------------------------------- C06 (the include stack)


@rule("T-INCLUDE-STACK", floor=6,
      text="`includes_stack` is the chain of (file, line) of the #include directives being processed, innermost last.  It is changed only by a push "
           "immediately before the recursive call of process() and the pop immediately after it (same block), and everything that derives an "
           "`included_in` from it reads its top (`last()`): a reader of another element (first, get(i), an iterator) reports the outermost includer, "
           "or a stale one, as the place a nested header was included from.  The only other accesses allowed are len() / is_empty()")
def t_include_stack(facts, res, tier):
    n_read = n_pair = 0
    for fn in facts.fns:
        if not fn["file"].endswith("cpp.rs") or fn.get("test"):
            continue
        par = None
        for x in walk(fn["body"]):
            if x.get("k") == "index" and "includes_stack" in expr_text(x.get("e") or x.get("base") or {}):
                res.fail("T-INCLUDE-STACK:%s:index" % fn["name"], facts.where(fn, x), "%s indexes includes_stack" % fn["name"])
            if x.get("k") != "mcall":
                continue
            r = x["recv"]
            while r.get("k") in ("ref", "paren"):
                r = r["e"]
            if not (r.get("k") == "field" and r["name"] == "includes_stack"):
                continue
            m = x["method"]
            key = "T-INCLUDE-STACK:%s:%s" % (fn["name"], m)
            if m in ("len", "is_empty"):
                res.inst(key, True, {"function": fn["name"], "access": m})
                continue
            if m == "last":
                n_read += 1
                res.inst(key, True, {"function": fn["name"], "access": "top of the stack"})
                continue
            if m in ("push", "pop"):
                if par is None:
                    par = _parents(fn["body"])
                # the statement and its block
                top = x
                p, k, idx = par[id(top)]
                while p is not None and p.get("k") != "block":
                    top = p
                    p, k, idx = par[id(top)]
                res.inst(key, True, {"function": fn["name"], "access": m})
                if p is None:
                    res.fail(key, facts.where(fn, x), "%s: %s of includes_stack outside a block" % (fn["name"], m))
                    continue
                stmts = p["stmts"]
                if m == "push":
                    n_pair += 1
                    nxt = stmts[idx + 1] if idx + 1 < len(stmts) else None
                    aft = stmts[idx + 2] if idx + 2 < len(stmts) else None
                    rec_call = nxt is not None and any(c.get("k") == "call" and expr_text(c["func"]).split("::")[-1] == fn["name"] for c in walk(nxt))
                    popped = aft is not None and any(c.get("k") == "mcall" and c["method"] == "pop" and "includes_stack" in expr_text(c["recv"]) for c in walk(aft)) and aft.get("k") in ("mcall", "try")
                    if not (rec_call and popped):
                        res.fail(key, facts.where(fn, x), "%s pushes on includes_stack without the shape push / recursive call / pop in one block: the stack no longer mirrors the files being read" % fn["name"])
                    a = x["args"][0] if x.get("args") else {}
                    at = expr_text(a).replace(" ", "")
                    if not re.match(r"^\(filename(\.clone\(\))?,line\)$", at):
                        res.fail(key + ":entry", facts.where(fn, x), "%s pushes `%s`: the entry must be the file being read and the line of its #include directive" % (fn["name"], at))
                else:
                    prev = stmts[idx - 1] if idx >= 1 else None
                    prev2 = stmts[idx - 2] if idx >= 2 else None
                    ok = prev is not None and prev2 is not None and any(c.get("k") == "mcall" and c["method"] == "push" and "includes_stack" in expr_text(c["recv"]) for c in walk(prev2))
                    if not ok:
                        res.fail(key, facts.where(fn, x), "%s pops includes_stack without the matching push two statements before" % fn["name"])
                continue
            res.inst(key, True, {"function": fn["name"], "access": m})
            res.fail(key, facts.where(fn, x), "%s reads includes_stack through `%s`: `included_in` must be the innermost includer (last())" % (fn["name"], m))
    if n_read < 4 or n_pair < 1:
        raise AnchorMissing("includes_stack: %d top-of-stack readers, %d push sites (4 and 1 confirmed by hand)" % (n_read, n_pair))


# ----------------------------------------------------------------------------- C10 (a literal keeps its value or is rejected)

_W = {"u8": (8, 0), "i8": (8, 1), "u16": (16, 0), "i16": (16, 1), "u32": (32, 0), "i32": (32, 1), "u64": (64, 0), "i64": (64, 1),
      "usize": (64, 0), "isize": (64, 1), "u128": (128, 0), "i128": (128, 1)}


def _lossless(src, dst):
    if src not in _W or dst not in _W:
        return dst in ("f64",) or src == dst
    (ws, ss), (wd, sd) = _W[src], _W[dst]
    if ss == sd:
        return wd >= ws
    return ss == 0 and sd == 1 and wd > ws


def _conv_type(n):
    if n.get("k") == "mcall" and n["method"] == "parse" and n.get("turbofish"):
        return re.sub(r"[:<>\s]", "", n["turbofish"])
    if n.get("k") == "call" and expr_text(n["func"]).endswith("from_str_radix"):
        return expr_text(n["func"]).split("::")[0].strip()
    return None


@rule("T-PARSE-WIDTH", floor=10,
      text="the integer read from source text (`.parse::<T>()`, `T::from_str_radix`) keeps its value: it is not re-typed with an `as` cast that can "
           "change it (narrower, or of the other signedness without an extra bit) - neither inside the closure chain that consumes the conversion "
           "(`.ok().map(|v| v as i32)`) nor through a local bound to it.  A literal beyond the range of the target is then rejected by the conversion "
           "itself instead of wrapping (0xFFFFFFFF read as -1, then sign-extended by every later 16-bit use)")
def t_parse_width(facts, res, tier):
    from scopes import scoped
    n = 0
    for fn in facts.fns:
        if fn.get("test") or "/tests/" in fn["file"]:
            continue
        convs = [(x, _conv_type(x)) for x in walk(fn["body"]) if _conv_type(x)]
        if not convs:
            continue
        parent = {}
        for x in walk(fn["body"]):
            if x.get("k") == "mcall":
                parent[id(x["recv"])] = x
            elif x.get("k") == "try":
                parent[id(x["e"])] = x
        sc = None
        for ci, (c, ty) in enumerate(convs):
            n += 1
            key = "T-PARSE-WIDTH:%s:%s#%d" % (fn["name"], ty, ci + 1)
            casts = []
            # (a) closures of the chain
            cur = c
            chain_top = c
            while id(cur) in parent:
                cur = parent[id(cur)]
                chain_top = cur
                if cur.get("k") == "mcall" and cur["method"] in ("map", "and_then", "map_or", "map_or_else", "then", "filter_map") :
                    for a in cur.get("args", []):
                        if a.get("k") == "closure" and a.get("params"):
                            pn = [p.get("name") or (p.get("pat") or {}).get("name") for p in a["params"]]
                            for y in walk(a["body"]):
                                if y.get("k") == "cast" and any(_mentions(y["e"], q) for q in pn if q):
                                    casts.append(y)
            # (b) a local bound to the chain
            if sc is None:
                sc = scoped(fn)
            for node, env, doms in sc:
                if node.get("k") != "cast":
                    continue
                for b in env.values():
                    if b.src == "let" and b.init is not None and any(z is c for z in walk(b.init)) and _mentions(node["e"], b.name) and b.pat is not None and b.pat.get("k") == "ident":
                        if node not in casts:
                            casts.append(node)
            bad = [y for y in casts if not _lossless(ty, y["ty"].replace(" ", ""))]
            res.inst(key, True, {"function": fn["name"], "parsed_as": ty, "casts_of_the_value": [expr_text(y)[:40] for y in casts]})
            for y in bad:
                res.fail(key, facts.where(fn, y), "%s parses the text as %s and re-types the value with `%s`: a literal outside the range of %s is not rejected, it wraps" % (
                    fn["name"], ty, expr_text(y)[:40], y["ty"]))
    res.note("%d conversions" % n)


# ----------------------------------------------------------------------------- C15 (whose carry is it)


KEEPS_CARRY_MEANING = {"STA", "STX", "STY", "TAX", "TAY", "TXA", "TYA", "CMP", "CPX", "CPY"}

CARRY_REPOINT_EXCEPTIONS = {
    "generate_assign:A": "an accumulator *destination* is passed by generate_return (an RTS or the jump to the end of the inlined body follows) and by "
                         "generate_ternary (each alternative is followed by a label, which clears carry_flag_ok) only",
    "generate_deref:Y": "Y is loaded as the index of the access being built, the operand returned is AbsoluteY(pointer): the instruction that uses it "
                        "(generate_assign / generate_arithm / the compare of generate_condition_ex) re-points the flags and decides carry_flag_ok "
                        "before anything can consult them, and flags_ok() never holds between the state Y and an AbsoluteY operand",
    "generate_expr:Y": "same as generate_deref:Y (the subscript is loaded into Y for an AbsoluteY operand); the saved Y is restored by "
                       "purge_deferred_plusplus_and_savey, which clears carry_flag_ok",
}


@rule("T-CARRY-REPOINT", floor=15,
      text="`carry_flag_ok` says that C belongs to the value `self.flags` describes (it lets an ordering test against 0 branch on C).  A path that "
           "re-points `flags` to another value (assigns it a state other than Unknown) therefore also decides `carry_flag_ok` - it assigns it, or "
           "passes through label(), which clears it - instead of inheriting what an earlier subtraction left: INC x / DEC x do not change C, but after "
           "them C is not a property of x.  Decided: every normal path of every generator function that claims the flags also touches "
           "carry_flag_ok; not decided: that the value assigned is right")
def t_carry_repoint(facts, res, tier):
    from walker import EnumV
    per = {}
    mn_universe = facts.enum_variants("AsmMnemonic")
    for fn in genmodel.gen_fns(facts):
        if fn["name"] in ("new", "label"):
            continue
        if not any(x.get("k") == "assign" and expr_text(x["l"]).replace(" ", "") == "self.flags" for x in walk(fn["body"])):
            continue
        try:
            paths = genmodel.fn_paths(facts, fn)
        except Exception as e:  # the walker cannot enumerate this function: fail closed
            raise AnchorMissing("paths of %s: %s" % (fn["name"], e))
        for kind, val, st in paths:
            if genmodel.is_error_exit(val):
                continue
            claim = None
            touched = False
            last = None
            for ev in st.events:
                if ev["kind"] == "set" and ev["field"] == "flags":
                    v = ev["value"]
                    if isinstance(v, EnumV) and v.variant == "Unknown":
                        continue
                    # a store or a register transfer moves the value the flags already describe: its C moves with it;
                    # a compare computes C from the value it describes
                    if last is not None and last <= KEEPS_CARRY_MEANING:
                        continue
                    claim = ev
                    claim_after = last
                elif ev["kind"] == "set" and ev["field"] == "carry_flag_ok":
                    touched = True
                elif ev["kind"] == "label":
                    touched = True
                elif ev["kind"] in ("asm", "sasm", "sasm_protected") and ev.get("args"):
                    m = genmodel.domain_of(st, ev["args"][0], facts, universe=mn_universe)
                    last = set(m) if m else {"?"}
            if claim is None:
                continue
            v = claim["value"]
            what = v.variant if isinstance(v, EnumV) else "(computed)"
            key = "T-CARRY-REPOINT:%s:%s" % (fn["name"], what)
            d = per.setdefault(key, {"fn": fn, "ok": 0, "bad": None, "after": set()})
            d["after"] |= claim_after or {"(nothing emitted)"}
            if touched:
                d["ok"] += 1
            elif d["bad"] is None:
                d["bad"] = claim
    for key, d in sorted(per.items()):
        res.inst(key, True, {"paths_deciding_carry": d["ok"], "violating": d["bad"] is not None, "claimed_after": sorted(d["after"])})
        exc = CARRY_REPOINT_EXCEPTIONS.get(key.split(":", 1)[1])
        if d["bad"] is not None and exc:
            res.note("exception %s: %s" % (key, exc))
            continue
        if d["bad"] is not None:
            res.fail(key, facts.where(d["fn"], d["bad"]["node"]), "a path through %s claims the flags for a new value and leaves carry_flag_ok as it found it: the C of an earlier subtraction is then taken for a property of that value, and `x > 0` right after branches on it" % d["fn"]["name"])


# ----------------------------------------------------------------------------- C13 (a call has a target)


@rule("T-CALL-TARGET", floor=4,
      text="the body of an `inline` function is never emitted as a subroutine (the builders skip it), so its name is not a symbol of the output.  Every "
           "instruction of generate_function_call whose operand is the label of the callee (JSR f, JSR Callf) lies where the callee's `inline` flag "
           "has been tested and found false - the else side of a test that is exactly `f.inline`, f being the entry looked up for the called name - "
           "and the inline expansion lies on its true side")
def t_call_target(facts, res, tier):
    from scopes import scoped, simple_name, strip
    fn = facts.fn("generate_function_call", genmodel.GEN_QUAL)
    n = 0
    for node, env, doms in scoped(fn):
        if not _self_call(node, ("asm", "push_code")):
            continue
        if node["method"] == "asm":
            if len(node.get("args", [])) < 2:
                continue
            lab = None
            for x in walk(node["args"][1]):
                if x.get("k") == "call" and expr_text(x["func"]).replace(" ", "").endswith("ExprType::Label") and x.get("args"):
                    lab = x["args"][0]
            if lab is None:
                continue
            e = strip(lab)
            names = [simple_name(e)] if simple_name(e) else [simple_name(a) for a in (e.get("args") or [])[1:]] if e.get("k") == "macro" else []
            callee = [nm for nm in names if nm and env.get(nm) is not None and env[nm].ctor and env[nm].ctor[-1] == "Identifier"]
            if not callee:
                continue
            want = False
            what = "%s %s" % (expr_text(node["args"][0]), expr_text(lab)[:30])
        else:
            callee = [simple_name(node["args"][0])] if node.get("args") else []
            want = True
            what = "push_code"
        n += 1
        key = "T-CALL-TARGET:%s" % what.replace(" ", ":")
        # the looked-up entries of the called name
        entries = [b.name for b in env.values() if b.scrut is not None and re.search(r"\.functions\.get\(&?%s\)" % re.escape(callee[0]), expr_text(b.scrut).replace(" ", "")) and b.ctor and b.ctor[-1] == "Some"]
        tested = None
        for d in doms:
            if d[0] == "cond":
                t = expr_text(d[1]).replace(" ", "").strip("()")
                for en in entries:
                    if t == "%s.inline" % en:
                        tested = d[2]
        res.inst(key, True, {"emits": what, "callee_entry": entries, "inline_known": tested})
        if tested is None or tested != want:
            res.fail(key, facts.where(fn, node), "generate_function_call emits `%s` where the callee's `inline` flag is %s: %s" % (
                what, "not known" if tested is None else "known to be %s" % str(tested).lower(),
                "a JSR to an inline function has no target in the output" if not want else "an expansion of a function that is not inline"))
    res.note("%d call emissions" % n)


# ----------------------------------------------------------------------------- C17 / C01 (the flags of which byte)


BYTE_SELECTING_CALLS = ("generate_assign", "generate_arithm")


@rule("T-FLAGS-BYTE", configs=("default", "atari2600"), floor=8,
      text="a state `FlagsState::Absolute/AbsoluteX/AbsoluteY(variable ..)` says that N and Z are those of the variable, so a truth test of it may branch "
           "without reloading it.  On every path the claim is made after an access to the byte(s) the state names: the last instruction (asm(.., high_byte)) or "
           "two-operand step (generate_assign / generate_arithm (.., high_byte)) before it was not made with high_byte = true - after the ADC #0 / STA of "
           "the high byte of a 16-bit ++ the flags are those of the high byte alone, and `while (--s)` would stop when it reaches zero with the low byte "
           "still counting.  The INC lo / BNE / INC hi shape claims the flags after a label, where both ways in agree with the claim; not decided: that shape itself")
def t_flags_byte(facts, res, tier):
    from walker import EnumV, Const
    per = {}
    for fn in genmodel.gen_fns(facts):
        if fn["name"] in ("new", "label", "asm"):
            continue
        if not any(x.get("k") == "assign" and expr_text(x["l"]).replace(" ", "") == "self.flags" for x in walk(fn["body"])):
            continue
        paths = genmodel.fn_paths(facts, fn)
        for kind, val, st in paths:
            if genmodel.is_error_exit(val):
                continue
            last = None   # (what, high_byte domain)
            for ev in st.events:
                if ev["kind"] == "asm" and len(ev["args"]) >= 4:
                    last = ("asm", genmodel.domain_of(st, ev["args"][3]) or {True, False}, ev)
                elif ev["kind"] in ("sasm", "sasm_protected", "label", "push_code", "inline"):
                    last = (ev["kind"], {False}, ev)
                elif ev["kind"] == "call" and ev.get("callee") in BYTE_SELECTING_CALLS and ev["args"]:
                    last = (ev["callee"], genmodel.domain_of(st, ev["args"][-1]) or {True, False}, ev)
                elif ev["kind"] == "call" and str(ev.get("callee", "")).startswith("generate_"):
                    last = (ev["callee"], {False}, ev)
                elif ev["kind"] == "set" and ev["field"] == "flags":
                    v = ev["value"]
                    if not (isinstance(v, EnumV) and v.variant in ("Absolute", "AbsoluteX", "AbsoluteY")):
                        continue
                    key = "T-FLAGS-BYTE:%s:%s" % (fn["name"], v.variant)
                    d = per.setdefault(key, {"fn": fn, "ok": 0, "bad": None, "after": set()})
                    if last is None:
                        d["ok"] += 1
                        d["after"].add("(nothing emitted)")
                        continue
                    d["after"].add(last[0])
                    if last[1] == {True}:
                        if d["bad"] is None:
                            d["bad"] = (ev, last)
                    else:
                        d["ok"] += 1
    for key, d in sorted(per.items()):
        res.inst(key, True, {"claims_after": sorted(d["after"]), "paths": d["ok"], "violating": d["bad"] is not None})
        if d["bad"] is not None:
            ev, last = d["bad"]
            res.fail(key, facts.where(d["fn"], ev["node"]), "a path through %s claims the flags for a variable right after %s made with high_byte = true: N and Z are those of its high byte alone, and a truth test that follows does not reload the variable" % (d["fn"]["name"], last[0]))


# ----------------------------------------------------------------------------- C16 (a mutex is not locked twice)


def _lock_target(e):
    """`<m>.lock().unwrap()` / `.expect(..)` / `?` -> text of <m>; None for anything else (in particular `*m.lock().unwrap()`, a copy)."""
    while isinstance(e, dict) and (e.get("k") in ("try", "paren") or (e.get("k") == "mcall" and e["method"] in ("unwrap", "expect"))):
        e = e["e"] if e.get("k") in ("try", "paren") else e["recv"]
    if isinstance(e, dict) and e.get("k") == "mcall" and e["method"] == "lock" and not e.get("args"):
        return expr_text(e["recv"]).replace(" ", "")
    return None


@rule("T-MUTEX-GUARD", floor=8,
      text="std::sync::Mutex is not re-entrant: locking it while a guard of the same mutex is alive in the same thread blocks for ever (or panics).  "
           "Every `lock()` in the crate is evaluated where no local that is still in scope was bound to a guard of the same mutex "
           "(`let g = m.lock().unwrap();` - a temporary guard, as in `*m.lock().unwrap() += n` or `let v = *m.lock().unwrap();`, dies at the end of "
           "its statement), unless that local was passed to drop() before; and no statement locks the same mutex twice in one expression")
def t_mutex_guard(facts, res, tier):
    from scopes import scoped
    n = 0
    for fn in facts.fns:
        if fn.get("test") or not any(x.get("k") == "mcall" and x["method"] == "lock" and not x.get("args") for x in walk(fn["body"])):
            continue
        for node, env, doms in scoped(fn):
            if not (node.get("k") == "mcall" and node["method"] == "lock" and not node.get("args")):
                continue
            m = expr_text(node["recv"]).replace(" ", "")
            n += 1
            key = "T-MUTEX-GUARD:%s:%s" % (fn["name"], m)
            held = []
            for b in env.values():
                if b.src == "let" and b.init is not None and b.pat is not None and b.pat.get("k") == "ident" and _lock_target(b.init) == m:
                    if any(x is node for x in walk(b.init)):
                        continue
                    dropped = any(d[0] == "stmt" and any(c.get("k") == "call" and expr_text(c["func"]).split("::")[-1] == "drop" and c.get("args") and expr_text(c["args"][0]).replace(" ", "") == b.name for c in walk(d[1])) for d in doms)
                    if not dropped:
                        held.append(b.name)
            res.inst(key, True, {"function": fn["name"], "mutex": m, "guards_alive": held})
            if held:
                res.fail(key, facts.where(fn, node), "%s locks `%s` while the guard `%s` of the same mutex is still alive: the second lock never returns (std's Mutex is not re-entrant)" % (fn["name"], m, held[0]))
        # twice in one statement
        for s in walk(fn["body"]):
            if s.get("k") == "block":
                for st in s.get("stmts", []):
                    if st.get("k") in ("block", "if", "match", "for", "while", "loop"):
                        continue
                    locks = [expr_text(x["recv"]).replace(" ", "") for x in walk(st) if x.get("k") == "mcall" and x["method"] == "lock" and not x.get("args")
                             and not any(c.get("k") in ("closure", "block") and any(y is x for y in walk(c)) for c in walk(st) if c is not st)]
                    for mm in set(locks):
                        if locks.count(mm) > 1:
                            res.fail("T-MUTEX-GUARD:%s:%s:statement" % (fn["name"], mm), facts.where(fn, st), "%s locks `%s` twice in one statement: the first temporary guard lives to the end of the statement" % (fn["name"], mm))
    res.note("%d lock sites" % n)


# ----------------------------------------------------------------------------- C01 / C04 / C17 (per-declarator state)


def _struct_lits(node, names):
    return [x for x in walk(node) if x.get("k") == "struct" and x["segs"][-1] in names]


@rule("T-DECLARATOR-STATE", floor=3,
      text="the attributes of one declared variable or parameter (type, constness, signedness, memory class, ..) are collected in locals and end in a "
           "`Variable {..}` literal.  In every loop whose iterations each build such a literal, a local that is assigned in the part of the iteration "
           "that builds the literal (the whole loop body, or - when the body dispatches on the kind of parse pair - the match arm holding the literal) "
           "is declared in that part too: a local declared further out keeps what one declarator or parameter set for the next one "
           "(`f(short a, char b)` made b signed; `superchip char * const p = 0x1000, q;` took q out of the extra RAM).  Locals that only *count* "
           "(`+=`, push, insert) are not attributes and are not judged")
def t_declarator_state(facts, res, tier):
    n = 0
    for fn in facts.fns:
        if fn.get("test") or not fn["file"].endswith("compile.rs"):
            continue
        lits = _struct_lits(fn["body"], ("Variable",))
        if not lits:
            continue
        par = _parents(fn["body"])
        # where every local is declared
        for lit in lits:
            # innermost enclosing `for`
            q = lit
            loop = None
            chain = []
            while q is not None:
                chain.append(q)
                pq, kq, iq = par.get(id(q), (None, None, None))
                if pq is not None and pq.get("k") == "for" and kq == "body":
                    loop = pq
                    break
                q = pq
            if loop is None:
                continue
            # the per-item region: the arm of the body's top-level match that holds the literal, else the body
            region = loop["body"]
            lv = scopes_pat_names(loop.get("pat"))
            for st0 in region.get("stmts") or []:
                m0 = st0
                while isinstance(m0, dict) and m0.get("k") in ("try", "paren"):
                    m0 = m0["e"]
                if isinstance(m0, dict) and m0.get("k") == "match" and any(("%s.as_rule()" % v) in expr_text(m0["e"]).replace(" ", "") for v in lv):
                    for arm in m0["arms"]:
                        if any(x is lit for x in walk(arm["body"])):
                            region = arm["body"]
            declared_in = {x["pat"]["name"] for x in walk(region) if x.get("k") == "let" and x["pat"].get("k") == "ident"}
            for x in walk(region):
                if x.get("k") == "closure":
                    continue
                for b in ([x] if x.get("k") == "for" else []):
                    for bb in scopes_pat_names(b.get("pat")):
                        declared_in.add(bb)
            declared_in |= {nm for x in walk(region) if x.get("k") in ("match",) for a in x["arms"] for nm in scopes_pat_names(a["pat"])}
            declared_in |= {nm for x in walk(region) if x.get("k") == "letcond" for nm in scopes_pat_names(x.get("pat"))}
            n += 1
            key0 = "T-DECLARATOR-STATE:%s" % fn["name"]
            leaks = {}
            for x in walk(region):
                if x.get("k") == "assign" and x["l"].get("k") == "path" and len(x["l"]["segs"]) == 1 and x.get("op", "=") in ("=", None):
                    nm = x["l"]["segs"][0]
                    if nm not in declared_in:
                        leaks.setdefault(nm, x)
            res.inst("%s:%s" % (key0, expr_text(loop.get("iter") or {})[:30]), True, {"function": fn["name"], "loop_over": expr_text(loop.get("iter") or {})[:40], "locals_of_the_item": len(declared_in), "assigned_from_outside": sorted(leaks)})
            for nm, x in sorted(leaks.items()):
                res.fail("%s:%s" % (key0, nm), facts.where(fn, x), "%s assigns `%s` while it builds one variable of a list, but `%s` is declared outside the loop over the list: what one declarator / parameter sets is still set for the next" % (fn["name"], nm, nm))
    res.note("%d per-item loops" % n)


def scopes_pat_names(p):
    from scopes import pat_bindings
    return [b.name for b in pat_bindings(p, "pat")] if isinstance(p, dict) else []


# ----------------------------------------------------------------------------- C15 / C01 (both bytes of a 16-bit assignment)


@rule("T-TWO-PASS", floor=4,
      text="an assignment to a 16-bit destination is generated in two passes: the low byte first, then - under `if !high_byte`, after the destination's "
           "type has been looked at - the same evaluation with high_byte = true ending in `generate_assign(.., true)`.  In every arm of generate_expr "
           "that has this second pass, nothing between the first pass and the test of the destination's type leaves the arm (`return`, `?` on "
           "anything but the generator calls of the passes themselves is not judged): an exit there, however it is motivated (an operand that is "
           "\"only 8 bits wide\" still has a sign to extend), stores the low byte of a 16-bit variable and leaves its high byte as it was, while the "
           "spelled-out form `x = x op e` goes through both passes")
def t_two_pass(facts, res, tier):
    fn = facts.fn("generate_expr", genmodel.GEN_QUAL)
    par = _parents(fn["body"])
    n = 0
    for c in walk(fn["body"]):
        if not (_self_call(c, ("generate_assign",)) and c.get("args") and c["args"][-1].get("k") == "lit" and c["args"][-1].get("v") is True):
            continue
        # the enclosing `if !high_byte`
        q = c
        guard = None
        arm = None
        while q is not None:
            pq, kq, iq = par.get(id(q), (None, None, None))
            if pq is not None and pq.get("k") == "if" and kq == "then" and expr_text(pq["cond"]).replace(" ", "").strip("()") == "!high_byte" and guard is None:
                guard = pq
            if pq is not None and kq == "arms" and arm is None and guard is not None:
                arm = q
            q = pq
        if guard is None or arm is None:
            continue
        n += 1
        armname = pat_text(arm["pat"]).replace(" ", "")[:50]
        key = "T-TWO-PASS:%s" % armname
        # statements of the guard's block before the one that holds the second pass
        stmts = guard["then"].get("stmts") or []
        idx = next(i for i, st in enumerate(stmts) if any(x is c for x in walk(st)))
        early = [x for st in stmts[:idx] for x in walk(st) if x.get("k") == "return"]
        # and, in the statement that holds it, a return that is not inside the type test's consequence
        res.inst(key, True, {"arm": armname, "statements_before_the_type_test": idx, "exits_before": len(early)})
        for x in early:
            res.fail(key, facts.where(fn, x), "generate_expr, arm %s: a `return` between the low-byte pass and the high-byte pass: a 16-bit destination keeps its old high byte on that path (`s |= d` with a negative signed char d), unlike `s = s | d`" % armname)
    if n == 0:
        raise AnchorMissing("generate_expr: no arm with a second pass (generate_assign(.., true) under `if !high_byte`) found")
    res.note("%d second-pass sites" % n)


# ----------------------------------------------------------------------------- C13 (every statement is generated)


@rule("T-STMT-ALL", floor=2,
      text="the generator walks a list of statements (the body of a block, of a switch case) with a loop that hands every element to "
           "generate_statement: that call is a statement of the loop body itself, not of a branch inside it.  A statement that is skipped - "
           "because it \"cannot be reached\" after a return, say - may hold the label of a goto emitted earlier (`JMP .again` with no `.again`), "
           "or a case label, a loop label, an inline function's `.endof`")
def t_stmt_all(facts, res, tier):
    n = 0
    for fn in genmodel.gen_fns(facts):
        for lp in walk(fn["body"]):
            if lp.get("k") != "for":
                continue
            lv = scopes_pat_names(lp.get("pat"))
            calls = [x for x in walk(lp["body"]) if _self_call(x, ("generate_statement",)) and x.get("args") and any(_mentions(x["args"][0], v) for v in lv)]
            if not calls:
                continue
            n += 1
            key = "T-STMT-ALL:%s:%s" % (fn["name"], expr_text(lp.get("iter") or {}).replace(" ", "")[:30])
            top = []
            for st in lp["body"].get("stmts") or []:
                e = st
                while isinstance(e, dict) and e.get("k") in ("try", "paren"):
                    e = e["e"]
                if any(e is c for c in calls):
                    top.append(st)
            leaves = [x for x in walk(lp["body"]) if x.get("k") in ("continue", "break")]
            res.inst(key, True, {"function": fn["name"], "list": expr_text(lp.get("iter") or {})[:40], "unconditional": bool(top), "skips": len(leaves)})
            if not top:
                res.fail(key, facts.where(fn, calls[0]), "%s generates the statements of `%s` under a condition: a skipped statement may define a label that code already emitted jumps to" % (fn["name"], expr_text(lp.get("iter") or {})[:40]))
            for x in leaves:
                res.fail(key, facts.where(fn, x), "%s leaves or skips an iteration of the loop over `%s`: the remaining statements are not generated" % (fn["name"], expr_text(lp.get("iter") or {})[:40]))
    if n == 0:
        raise AnchorMissing("no loop handing statements to generate_statement found")


@rule("T-SEQ-CALL", floor=2,
      text="the part of T-SEQ-POINT that concerns a call, run on its own under the properties a call's arguments can break without the other "
           "sequence points mattering (an inlined and an out-of-line call must agree): in generate_function_call each argument assignment is "
           "evaluated for its effect and the next thing emitted - the JSR or the expansion of the inline body alike - comes after the purge of "
           "what the arguments left pending, and that purge starts at a mark taken before the arguments")
def t_seq_call(facts, res, tier):
    from core import Result
    tmp = Result()
    t_seq_point(facts, tmp, tier)
    for key, nt, sample in tmp.instances:
        if ":generate_function_call:" in key:
            res.inst(key.replace("T-SEQ-POINT", "T-SEQ-CALL", 1), nt, sample)
    for v in tmp.violations:
        if ":generate_function_call:" in v.key:
            res.fail(v.key.replace("T-SEQ-POINT", "T-SEQ-CALL", 1), v.where, v.msg, getattr(v, "detail", None))


# ----------------------------------------------------------------------------- C16 / C13 (a verdict only while nothing was emitted)


@rule("T-COND-AFTER-BRANCH", floor=8,
      text="generate_condition may answer a constant condition with a verdict (Some(b)) instead of code, and its callers then emit no label for it.  In "
           "the && / || arms that is only sound while nothing has been emitted for the condition: the second operand is evaluated with the caller's "
           "`immediate_special` only inside `if let Some(..) = <result of the first operand>` (the first operand was a constant too); where the first "
           "operand has emitted its branch (its result was None) the second one is evaluated with `immediate_special = false`, so the whole condition "
           "answers None and the label the emitted branch goes to is defined (`X = (i && 1) ? 3 : 4;` left `BEQ .else1` without `.else1` and "
           "check_branches hit unreachable!())")
def t_cond_after_branch(facts, res, tier):
    from scopes import scoped
    fns = [f for f in genmodel.gen_fns(facts) if any(p.get("name") == "immediate_special" for p in f["params"])]
    n = 0
    for f in fns:
        sc = scoped(f)
        # results of a first operand: `let cond = self.generate_condition(lhs, ..)?`
        for node, env, doms in sc:
            if not (_self_call(node, ("generate_condition", "generate_simple_condition")) and len(node.get("args", [])) >= 5):
                continue
            first = expr_text(node["args"][0]).replace(" ", "")
            if first != "rhs":
                continue
            # was a first operand evaluated before, in this arm?
            firsts = [d for d in doms if d[0] == "stmt" and d[1].get("k") == "let" and any(_self_call(x, ("generate_condition", "generate_simple_condition")) and expr_text(x["args"][0]).replace(" ", "") == "lhs" for x in walk(d[1].get("init") or {}))]
            if not firsts:
                continue
            cname = firsts[-1][1]["pat"].get("name")
            n += 1
            inside_some = any(d[0] == "arm" and expr_text(d[1]).replace(" ", "") == cname and pat_text(d[2]).replace(" ", "").startswith("Some(") for d in doms)
            last = node["args"][4]
            lit_false = last.get("k") == "lit" and last.get("v") is False
            key = "T-COND-AFTER-BRANCH:%s:%s" % (f["name"], "verdict-known" if inside_some else "branch-emitted")
            res.inst(key, True, {"function": f["name"], "first_operand_result": cname, "inside_if_let_Some": inside_some, "immediate_special": expr_text(last)})
            if not inside_some and not lit_false:
                res.fail(key, facts.where(f, node), "%s evaluates the second operand with immediate_special = `%s` where the first operand may have emitted its branch: a constant second operand then yields a verdict, the caller emits no label, and the branch already emitted has no target" % (f["name"], expr_text(last)))
    if n == 0:
        raise AnchorMissing("no second-operand evaluation of && / || found")


# ----------------------------------------------------------------------------- C17 (which variables are split-port RAM)


@rule("T-ONCHIP-CLASS", floor=1,
      text="a variable declared in `bankN` without a definition has nothing to put in ROM: it is RAM of that bank, reached through two ports, and the "
           "code generator applies the port rules to the class MemoryOnChip only.  The conversion ROM(bank) -> MemoryOnChip(bank) in the declaration "
           "code is guarded by exactly two tests - no definition, class is ROM(bank) - so that afterwards `no definition` implies `not ROM`; a further "
           "condition (constness: every array is const) leaves a RAM array in class ROM, its stores go to the read port and the builder does not "
           "allocate it")
def t_onchip_class(facts, res, tier):
    from scopes import scoped
    n = 0
    for fn in facts.fns:
        if fn.get("test") or not fn["file"].endswith("compile.rs"):
            continue
        if "MemoryOnChip" not in expr_text(fn["body"]):
            continue
        for node, env, doms in scoped(fn):
            if not (node.get("k") == "assign" and "MemoryOnChip" in expr_text(node["r"]) and expr_text(node["l"]).replace(" ", "") == "memory"):
                continue
            n += 1
            key = "T-ONCHIP-CLASS:%s" % fn["name"]
            guards = []
            for d in doms:
                if d[0] == "cond":
                    guards += [("cond", expr_text(x).replace(" ", "").strip("()"), d[2]) for x in _conjuncts(d[1])]
                elif d[0] == "arm" and expr_text(d[1]).replace(" ", "") in ("memory", "&memory"):
                    guards.append(("arm", pat_text(d[2]).replace(" ", ""), True))
            # only the guards inside the innermost statement-level `if` chain that tests the definition count
            tests = [g for g in guards if g[0] == "cond" and re.match(r"^def==VariableDefinition::None$", g[1]) and g[2]]
            roms = [g for g in guards if g[0] == "arm" and re.match(r"^VariableMemory::ROM\(\w+\)$", g[1])]
            # conditions that entered the same `if` as the definition test
            extra = []
            for d in doms:
                if d[0] == "cond" and any(re.match(r"^def==VariableDefinition::None$", expr_text(x).replace(" ", "").strip("()")) for x in _conjuncts(d[1])):
                    extra += [expr_text(x).replace(" ", "") for x in _conjuncts(d[1]) if not re.match(r"^def==VariableDefinition::None$", expr_text(x).replace(" ", "").strip("()"))]
            # && chains are split into separate cond entries by scoped(): collect the conds between the definition test and the assignment
            idx = [i for i, d in enumerate(doms) if d[0] == "cond" and re.match(r"^def==VariableDefinition::None$", expr_text(d[1]).replace(" ", "").strip("()"))]
            if idx:
                extra += [expr_text(d[1]).replace(" ", "") for d in doms[idx[-1] + 1:] if d[0] == "cond"]
            res.inst(key, True, {"function": fn["name"], "definition_test": bool(tests), "rom_pattern": bool(roms), "other_conditions": extra})
            if not tests or not roms:
                res.fail(key, facts.where(fn, node), "%s: the conversion to MemoryOnChip is not under `def == VariableDefinition::None` and `VariableMemory::ROM(bank) = memory`" % fn["name"])
            for e in extra:
                res.fail(key, facts.where(fn, node), "%s converts a bank-resident variable without definition to split-port RAM only when `%s` also holds: the others stay in class ROM, the port rules are not applied to them and the builders do not allocate them" % (fn["name"], e[:60]))
    if n == 0:
        raise AnchorMissing("no conversion to VariableMemory::MemoryOnChip found")


def _conjuncts(e):
    while isinstance(e, dict) and e.get("k") == "paren":
        e = e["e"]
    if isinstance(e, dict) and e.get("k") == "binary" and e["op"] == "&&":
        return _conjuncts(e["l"]) + _conjuncts(e["r"])
    return [e]


# ----------------------------------------------------------------------------- C01 / C05 (names the compiler makes up)


@rule("T-RESERVED-NAMES", floor=2,
      text="the compiler makes up global names of its own: `cctmp` (the scratch byte of expressions, declared by the builders) and `cctmp<n>` (string "
           "literals, `format!(\"cctmp{}\", counter)` inserted into `variables`).  Wherever the declaration code takes a global name from the source as it "
           "is written (the `Rule::id_name` arm of a global declarator, of a function), the arm rejects names with that prefix before it uses the name: "
           "otherwise `const char cctmp0[2] = {1, 2};` and the first string literal are one entry of `variables` (the later one replaces the other, and "
           "two entries share an `order`, so listings come out in hash order), and `char cctmp;` is overwritten by every expression that needs a temporary")
def t_reserved_names(facts, res, tier):
    from scopes import scoped
    prefixes = set()
    for fn in facts.fns:
        if not fn["file"].endswith("compile.rs"):
            continue
        # names made up for table entries: `let name = format!("<prefix>{}", counter)` with `name` then a key of variables / functions
        keys = set()
        for x in walk(fn["body"]):
            if x.get("k") == "mcall" and x["method"] == "insert" and x.get("args") and re.search(r"\.(variables|functions)$", expr_text(x["recv"]).replace(" ", "")):
                keys |= {y["segs"][0] for y in walk(x["args"][0]) if y.get("k") == "path" and len(y["segs"]) == 1}
        for x in walk(fn["body"]):
            if x.get("k") == "let" and x["pat"].get("k") == "ident" and x.get("init") is not None:
                i0 = x["init"]
                if i0.get("k") == "macro" and i0.get("name") == "format" and i0.get("args") and i0["args"][0].get("k") == "lit":
                    m = re.match(r"^([A-Za-z][A-Za-z_]*)\{\}$", str(i0["args"][0]["v"]))
                    if m and (x["pat"]["name"] in keys or x["pat"]["name"] == "name"):
                        prefixes.add(m.group(1))
    if not prefixes:
        raise AnchorMissing("no generated global name family (format!(\"<prefix>{}\", ..)) found in compile.rs")
    n = 0
    for fn in facts.fns:
        if not fn["file"].endswith("compile.rs") or fn.get("test"):
            continue
        for m in walk(fn["body"]):
            if m.get("k") != "match":
                continue
            for arm in m["arms"]:
                if pat_text(arm["pat"]).replace(" ", "") != "Rule::id_name":
                    continue
                # is a name taken from the source text as written (no function prefix) in this arm?
                bare = None
                for x in walk(arm["body"]):
                    if x.get("k") == "assign" and expr_text(x["l"]).strip() == "name":
                        r = expr_text(x["r"]).replace(" ", "")
                        if re.match(r"^(shortname\.into\(\)|\w+\.as_str\(\)\.to_string\(\)|\w+\.as_str\(\)\.into\(\))$", r):
                            bare = x
                if bare is None:
                    continue
                n += 1
                key = "T-RESERVED-NAMES:%s" % fn["name"]
                tested = set()
                for x in walk(arm["body"]):
                    if x.get("k") == "if":
                        for c in walk(x["cond"]):
                            if c.get("k") == "mcall" and c["method"] == "starts_with" and c.get("args") and c["args"][0].get("k") == "lit" and expr_text(c["recv"]).strip() in ("name", "shortname", "&name"):
                                if any(y.get("k") == "return" for y in walk(x["then"])) and "Err" in expr_text(x["then"]):
                                    tested.add(str(c["args"][0]["v"]))
                res.inst(key, True, {"function": fn["name"], "generated_prefixes": sorted(prefixes), "rejected_prefixes": sorted(tested)})
                for pfx in sorted(prefixes):
                    if not any(pfx.startswith(t) for t in tested):
                        res.fail(key + ":" + pfx, facts.where(fn, bare), "%s takes a global name from the source as written and does not reject the prefix `%s` of the names the compiler generates: a user object of that name and a generated one become the same entry" % (fn["name"], pfx))
    if n == 0:
        raise AnchorMissing("no arm taking a bare global name from the source found")


# ----------------------------------------------------------------------------- C01 / C15 (a store makes a memory claim stale)


FLAGS_STORE_EXCEPTIONS = {
    "generate_strobe_statement:STA": "strobe(v) keeps a claim about another cell and drops a claim about v: after the store it matches `self.flags` against "
                                     "Absolute / AbsoluteX / AbsoluteY(n ..) under the guard `n == <the strobed name>` and assigns Unknown there (premise verified below)",
}


def _strobe_premise(facts):
    """after its STA, generate_strobe_statement has `match &self.flags { Absolute(n,..) | AbsoluteX(n) | AbsoluteY(n) if n == name => self.flags = Unknown, .. }`"""
    fn = facts.fn("generate_strobe_statement", genmodel.GEN_QUAL)
    stores = [x for x in walk(fn["body"]) if _self_call(x, ("asm",)) and x.get("args") and expr_text(x["args"][0]).replace(" ", "").endswith("STA")]
    if not stores:
        return "no STA found"
    operand = re.search(r"ExprType::Absolute\((\w+)", expr_text(stores[0]["args"][1]).replace(" ", ""))
    name = operand.group(1) if operand else None
    for m in walk(fn["body"]):
        if m.get("k") == "match" and expr_text(m["e"]).replace(" ", "").lstrip("&") == "self.flags":
            for a in m["arms"]:
                pt = pat_text(a["pat"]).replace(" ", "")
                g = expr_text(a["guard"]).replace(" ", "").strip("()") if a.get("guard") is not None else ""
                binders = scopes_pat_names(a["pat"])
                if all(v in pt for v in ("FlagsState::Absolute(", "FlagsState::AbsoluteX(", "FlagsState::AbsoluteY(")) and len(set(binders)) == 1 \
                        and g in ("%s==%s" % (binders[0], name), "%s==%s" % (name, binders[0]), "*%s==*%s" % (binders[0], name)) \
                        and expr_text(a["body"]).replace(" ", "").strip("{};") == "self.flags=FlagsState::Unknown":
                    return None
            return "the match on self.flags has no arm `Absolute|AbsoluteX|AbsoluteY(n ..) if n == %s => self.flags = Unknown`" % name
    return "no match on self.flags after the store"


@rule("T-FLAGS-STORE", floor=6,
      text="a state `FlagsState::Absolute/AbsoluteX/AbsoluteY(v ..)` says N/Z are those of the memory operand v.  A store changes memory and no flag: on "
           "every normal path of every generator function, after the last store it emits to a memory operand (STA/STX/STY through asm()), `flags` is "
           "assigned again (to the operand stored, to a register, or to Unknown) - or the path tests that `flags` names no memory before it returns.  "
           "Otherwise a claim made earlier for that cell survives the store: `a = b; a = X; if (a)` branched on the flags of b")
def t_flags_store(facts, res, tier):
    from walker import EnumV, Sym
    mn_universe = facts.enum_variants("AsmMnemonic")
    per = {}
    # functions whose whole body is `if matches!(self.flags, <all three memory states>) { self.flags = Unknown }`
    killers = set()
    for fn in genmodel.gen_fns(facts):
        st0 = fn["body"].get("stmts") or []
        if len(st0) == 1 and st0[0].get("k") == "if" and st0[0].get("else") is None:
            c = st0[0]["cond"]
            if c.get("k") == "macro" and c.get("name") == "matches" and expr_text(c.get("e") or {}).replace(" ", "") == "self.flags" and c.get("pat") is not None and c.get("guard") is None:
                alts = c["pat"].get("alts") if c["pat"].get("k") == "or" else [c["pat"]]
                vs = {(a.get("segs") or ["?"])[-1] for a in alts}
                body = [expr_text(x).replace(" ", "") for x in (st0[0]["then"].get("stmts") or [])]
                if {"Absolute", "AbsoluteX", "AbsoluteY"} <= vs and body == ["self.flags=FlagsState::Unknown"]:
                    killers.add(fn["name"])
    for k in sorted(killers):
        res.inst("T-FLAGS-STORE:forgets-memory-claims:%s" % k, True, None)
    for fn in genmodel.gen_fns(facts):
        if fn["name"] in ("new", "asm", "sasm", "sasm_protected", "label", "asm_save_y", "asm_restore_y") or fn["name"] in killers:
            continue
        if not any(_self_call(x, ("asm",)) for x in walk(fn["body"])):
            continue
        try:
            paths = genmodel.fn_paths(facts, fn)
        except Exception as e:
            raise AnchorMissing("paths of %s: %s" % (fn["name"], e))
        for kind, val, st in paths:
            if genmodel.is_error_exit(val):
                continue
            last_store = None
            assigned_after = False
            for ev in st.events:
                if ev["kind"] == "asm" and len(ev["args"]) > 1:
                    m = genmodel.domain_of(st, ev["args"][0], facts, universe=mn_universe) or set()
                    opv = ev["args"][1]
                    memop = isinstance(opv, EnumV) and opv.variant in ("Absolute", "AbsoluteX", "AbsoluteY") or not isinstance(opv, EnumV)
                    if isinstance(opv, Sym):
                        dom = genmodel.domain_of(st, opv, facts)
                        if dom is not None and set(dom) <= {"Tmp"}:
                            memop = False   # cctmp is not a cell a flags state can name
                    if m and m <= {"STA", "STX", "STY"} and memop and not (isinstance(opv, EnumV) and opv.variant == "Tmp"):
                        last_store = (ev, "/".join(sorted(m)))
                        assigned_after = False
                elif ev["kind"] == "call" and ev.get("callee") in killers:
                    assigned_after = True
                elif ev["kind"] == "set" and ev["field"] == "flags":
                    assigned_after = True
                elif ev["kind"] in ("label",):
                    assigned_after = True
                elif ev["kind"] == "call" and str(ev.get("callee", "")).startswith("generate_"):
                    # a nested generator step decides the flags itself (judged there)
                    assigned_after = True
            if last_store is None:
                continue
            key = "T-FLAGS-STORE:%s:%s" % (fn["name"], last_store[1])
            d = per.setdefault(key, {"fn": fn, "ok": 0, "bad": None})
            if assigned_after:
                d["ok"] += 1
            elif d["bad"] is None:
                d["bad"] = last_store[0]
    for key, d in sorted(per.items()):
        res.inst(key, True, {"paths_reassigning_flags": d["ok"], "violating": d["bad"] is not None})
        exc = FLAGS_STORE_EXCEPTIONS.get(key.split(":", 1)[1])
        if d["bad"] is not None and exc:
            why = _strobe_premise(facts) if key.endswith("generate_strobe_statement:STA") else None
            if why is None:
                res.note("exception %s: %s" % (key, exc))
                continue
            res.fail(key + ":premise", facts.where(d["fn"], d["bad"]["node"]), "the premise under which this store is admitted no longer holds: %s" % why)
            continue
        if d["bad"] is not None:
            res.fail(key, facts.where(d["fn"], d["bad"]["node"]), "a path through %s stores to memory and returns without assigning `flags`: a claim that N/Z describe that cell, made before the store, survives it (`a = b; a = X; if (a)` tests the flags of b)" % d["fn"]["name"])


# ----------------------------------------------------------------------------- C01 (no part of the parse tree is dropped)


def _max_children(nfa, limit=64):
    """Largest number of child pairs the rule's automaton can yield; None = unbounded."""
    # longest path in the symbol graph; a cycle through a symbol edge means unbounded
    import sys
    sys.setrecursionlimit(10000)
    memo = {}
    onstack = set()

    def go(state):
        cl = nfa.closure({state})
        key = cl
        if key in memo:
            return memo[key]
        if key in onstack:
            return None
        onstack.add(key)
        best = 0
        for s in cl:
            for sym, t in nfa.trans[s]:
                if sym is None:
                    continue
                sub = go(t)
                if sub is None:
                    onstack.discard(key)
                    memo[key] = None
                    return None
                best = max(best, 1 + sub)
        onstack.discard(key)
        memo[key] = best
        return best
    return go(nfa.start)


@rule("T-TREEWALK-ALL", floor=9,
      text="the tree walkers do not drop what the grammar parsed: where the arm for a grammar rule takes the rule's children with a fixed number of "
           "`next()` calls (no loop over them, the iterator handed to nobody), the grammar cannot produce more children than that.  A child left on "
           "the iterator is source text that was accepted and then ignored: `if (a) if (b) A; else B; else C;` parsed with `(\\\"else\\\" ~ statement)*`, "
           "the walker took one else, and C was never generated")
def t_treewalk_all(facts, res, tier):
    import rules_treewalk as tw
    rules = facts.grammar_rules()
    nfas = tw.build_nfas(rules)
    n = 0
    for fn in facts.fns:
        if fn.get("test") or not fn["file"].endswith("compile.rs"):
            continue
        for m in walk(fn["body"]):
            if m.get("k") != "match" or not expr_text(m["e"]).replace(" ", "").endswith(".as_rule()"):
                continue
            pv = expr_text(m["e"]).replace(" ", "")[:-len(".as_rule()")]
            for arm in m["arms"]:
                p = arm["pat"]
                alts = p.get("alts") if p.get("k") == "or" else [p]
                names = [(a.get("segs") or ["?"])[-1] for a in alts if a.get("k") == "path" and len(a.get("segs", [])) == 2 and a["segs"][0] == "Rule"]
                if not names:
                    continue
                body = arm["body"]
                # `let mut V = <pv>.into_inner();`
                its = [x for x in walk(body) if x.get("k") == "let" and x["pat"].get("k") == "ident" and expr_text(x.get("init") or {}).replace(" ", "") == pv + ".into_inner()"]
                if len(its) != 1:
                    continue
                v = its[0]["pat"]["name"]
                uses = [x for x in walk(body) if x.get("k") == "path" and x["segs"] == [v]]
                nexts = [x for x in walk(body) if x.get("k") == "mcall" and x["method"] == "next" and expr_text(x["recv"]).strip() == v]
                # any other use of V (a loop over it, an argument, a method other than next) consumes it some other way
                other = len(uses) - len(nexts)
                if other > 0:
                    continue
                # next() calls inside a loop count as unbounded
                looped = False
                par = _parents(body)
                for x in nexts:
                    q = x
                    while q is not None:
                        pq, kq, iq = par.get(id(q), (None, None, None))
                        if pq is not None and pq.get("k") in ("loop", "while", "for"):
                            looped = True
                        q = pq
                if looped:
                    continue
                for nm in names:
                    if nm not in nfas:
                        continue
                    n += 1
                    mx = _max_children(nfas[nm])
                    key = "T-TREEWALK-ALL:%s:%s" % (fn["name"], nm)
                    res.inst(key, True, {"function": fn["name"], "rule": nm, "children_taken": len(nexts), "children_possible": "unbounded" if mx is None else mx})
                    if mx is None or mx > len(nexts):
                        res.fail(key, facts.where(fn, its[0]), "%s takes %d child(ren) of `%s` and drops the iterator, but the grammar can produce %s: the rest of what was parsed is ignored without an error" % (
                            fn["name"], len(nexts), nm, "any number" if mx is None else mx))
    if n == 0:
        raise AnchorMissing("no arm taking the children of a grammar rule with a fixed number of next() calls found")
    res.note("%d (walker arm, grammar rule) pairs with a fixed number of children taken" % n)


# ----------------------------------------------------------------------------- C01 (an operator is lowered as itself)


def _op_variants(node):
    """Operation::V(..) variant names constructed or named in an expression / pattern text."""
    return set(re.findall(r"Operation::(\w+)", expr_text(node) if isinstance(node, dict) and "k" in node and node.get("k") not in ("tstruct", "or", "path", "ident", "wild", "lit", "struct", "tuple", "ref") else pat_text(node)))


@rule("T-OP-IDENTITY", floor=8,
      text="in the operator dispatch of generate_expr (the match on the `Operation` of a binary expression) every arm hands the two-operand generators "
           "(generate_arithm, generate_shift, generate_shift_16bits) the operation it matched - the binding `op` itself - or an `Operation` its own "
           "pattern names.  An arm that constructs another operation re-interprets the operator: `x / 2` lowered as an arithmetic shift rounds toward "
           "minus infinity where C truncates toward zero, so an operator the 6502 cannot do is no longer refused but given a different meaning")
def t_op_identity(facts, res, tier):
    from scopes import scoped
    fn = facts.fn("generate_expr", genmodel.GEN_QUAL)
    n = 0
    for node, env, doms in scoped(fn):
        if not _self_call(node, ("generate_arithm", "generate_shift", "generate_shift_16bits")) or len(node.get("args", [])) < 3:
            continue
        # the innermost enclosing arm of a match on an Operation
        arm = None
        for d in doms:
            if d[0] == "arm" and "Operation::" in pat_text(d[2]):
                arm = d
        if arm is None:
            continue
        n += 1
        own = set(re.findall(r"Operation::(\w+)", pat_text(arm[2])))
        opa = node["args"][1]
        key = "T-OP-IDENTITY:%s:%s" % (node["method"], "|".join(sorted(own))[:40])
        # what operation is passed?
        passed = None
        e = opa
        while isinstance(e, dict) and e.get("k") in ("ref", "paren") or (isinstance(e, dict) and e.get("k") == "unary" and e.get("op") in ("&", "*")):
            e = e["e"]
        if isinstance(e, dict) and e.get("k") == "path" and len(e["segs"]) == 1:
            b = env.get(e["segs"][0])
            if b is not None and b.src == "pat":
                passed = "the matched operation"          # bound by the BinOp pattern
            elif b is not None and b.src == "let" and b.init is not None:
                vs = set(re.findall(r"Operation::(\w+)", expr_text(b.init)))
                passed = vs or {"?"}
            elif b is not None and b.src == "param":
                passed = "the matched operation"
        elif isinstance(e, dict):
            passed = set(re.findall(r"Operation::(\w+)", expr_text(e))) or {"?"}
        res.inst(key, True, {"call": node["method"], "arm": sorted(own), "operation_passed": passed if isinstance(passed, str) else sorted(passed or [])})
        if isinstance(passed, set) and not passed <= own:
            res.fail(key, facts.where(fn, node), "generate_expr, arm %s: %s is given the operation %s, which the arm did not match: the operator is lowered as another one" % (
                sorted(own), node["method"], sorted(passed - own)))
    if n == 0:
        raise AnchorMissing("generate_expr: no two-operand generator call under an Operation arm found")


# ----------------------------------------------------------------------------- C07 / C08 (the name a directive looks up)


def _value_spine_trims(e):
    """Is the value of this expression the result of a trim (directly, or through map/and_then closures)?  A trim inside a predicate
    (`filter(|s| !s.trim().is_empty())`) tests the text and leaves it as it was."""
    while isinstance(e, dict) and e.get("k") in ("try", "paren", "ref"):
        e = e["e"]
    if not isinstance(e, dict):
        return False
    if e.get("k") == "mcall":
        m = e["method"]
        if m in ("trim", "split_whitespace"):
            return True
        if m == "split" and e.get("args") and "is_whitespace" in expr_text(e["args"][0]):
            return True
        if m in ("map", "and_then", "map_or", "map_or_else", "then", "then_some"):
            for a in e.get("args", []):
                if a.get("k") == "closure" and _value_spine_trims(a["body"]):
                    return True
        return _value_spine_trims(e["recv"])
    if e.get("k") == "block":
        st = e.get("stmts") or []
        return bool(st) and _value_spine_trims(st[-1])
    if e.get("k") == "if":
        return _value_spine_trims(e["then"]) and (e.get("else") is None or _value_spine_trims(e["else"]))
    if e.get("k") == "call" and expr_text(e["func"]).split("::")[-1] in ("Some", "Ok") and e.get("args"):
        return _value_spine_trims(e["args"][0])
    return False


@rule("T-CPP-NAME-TRIM", floor=4,
      text="the macro name a directive looks up (`#ifdef`, `#ifndef`, `#undef`: the argument of get_macro / undefine in process()) is the rest of the "
           "line after the directive word with the white space around it removed: on the way from `parts.next()` to the lookup there is a trim() (or the "
           "name is a capture group of a regex, which cannot hold blanks).  `splitn(2, ' ')` leaves every further blank of `#ifdef  PAL` in front of the "
           "name, the lookup of \\\" PAL\\\" fails, and the wrong branch is selected")
def t_cpp_name_trim(facts, res, tier):
    from scopes import scoped
    fn = facts.fn("process", "")
    if not fn["file"].endswith("cpp.rs"):
        raise AnchorMissing("process() of cpp.rs not found")
    n = 0
    for node, env, doms in scoped(fn):
        if not (node.get("k") == "mcall" and node["method"] in ("get_macro", "undefine", "contains_key") and node.get("args")):
            continue
        if node["method"] == "contains_key" and "defs" not in expr_text(node["recv"]):
            continue
        a = node["args"][0]
        while isinstance(a, dict) and a.get("k") in ("ref", "paren") or (isinstance(a, dict) and a.get("k") == "unary" and a.get("op") in ("&", "*")):
            a = a["e"]
        if not (isinstance(a, dict) and a.get("k") == "path" and len(a["segs"]) == 1):
            continue
        name = a["segs"][0]
        n += 1
        # follow the binding chain
        seen = set()
        cur = [name]
        how = None
        steps = []
        while cur and how is None and len(seen) < 12:
            nm = cur.pop()
            if nm in seen:
                continue
            seen.add(nm)
            b = env.get(nm)
            if b is None:
                continue
            src = b.init if b.init is not None else b.scrut
            if src is None:
                continue
            t = expr_text(src).replace(" ", "")
            steps.append("%s <- %s" % (nm, t[:50]))
            if _value_spine_trims(src):
                how = "trimmed"
            elif re.search(r"&?\w+\[\d+\]", t) and any(env.get(x) is not None and env[x].init is not None and ".captures(" in expr_text(env[x].init) for x in re.findall(r"\b(\w+)\[", t)):
                how = "capture group"
            elif re.search(r"\.splitn\(|\.split\(|\.split_once\(", t):
                # this is where the operand is cut off the directive: a trim further upstream is a trim of the whole line
                pass
            else:
                cur += [x["segs"][0] for x in walk(src) if x.get("k") == "path" and len(x["segs"]) == 1]
        key = "T-CPP-NAME-TRIM:%s:%s" % (node["method"], name)
        res.inst(key, True, {"lookup": "%s(%s)" % (node["method"], name), "name_is": how, "chain": steps[:4]})
        if how is None:
            res.fail(key, facts.where(fn, node), "process() looks up `%s` with %s, and nothing on the way from the directive's operand to the lookup removes the white space around it (%s): `#ifdef  NAME` with two blanks looks up \" NAME\"" % (name, node["method"], "; ".join(steps[:4])))
    if n == 0:
        raise AnchorMissing("process(): no macro lookup found")


@rule("T-CPP-EVAL-EXPANDED", floor=2,
      text="the text handed to evaluate() for `#if` / `#elif` is the line after macro replacement: following the argument of every evaluate() call of "
           "process() back through its bindings one reaches a local bound to `context.replace_all(..)` directly - not under a test of the conditional "
           "state.  An `#elif` is evaluated while the state is Inactive (no earlier branch was taken), so a replacement done only when the state is "
           "Active leaves its macros unexpanded and the condition fails with `Undefined identifier`")
def t_cpp_eval_expanded(facts, res, tier):
    from scopes import scoped
    fn = facts.fn("process", "")
    n = 0
    for node, env, doms in scoped(fn):
        if not (node.get("k") == "mcall" and node["method"] == "evaluate" and node.get("args")):
            continue
        a = node["args"][0]
        names = [x["segs"][0] for x in walk(a) if x.get("k") == "path" and len(x["segs"]) == 1]
        n += 1
        seen = set()
        cur = list(names)
        verdict = None
        steps = []
        while cur and verdict is None and len(seen) < 16:
            nm = cur.pop()
            if nm in seen:
                continue
            seen.add(nm)
            b = env.get(nm)
            if b is None:
                continue
            src = b.init if b.init is not None else b.scrut
            if src is None:
                continue
            e = src
            while isinstance(e, dict) and e.get("k") in ("try", "paren", "ref"):
                e = e["e"]
            t = expr_text(src).replace(" ", "")
            steps.append("%s <- %s" % (nm, t[:40]))
            if isinstance(e, dict) and e.get("k") == "mcall" and e["method"] == "replace_all":
                verdict = "expanded"
            elif "replace_all(" in t:
                verdict = "conditional: %s" % t[:70]
            else:
                cur += [x["segs"][0] for x in walk(src) if x.get("k") == "path" and len(x["segs"]) == 1]
        key = "T-CPP-EVAL-EXPANDED:%d" % n
        res.inst(key, True, {"argument": expr_text(a)[:30], "text_is": verdict, "chain": steps[:5]})
        if verdict != "expanded":
            res.fail("T-CPP-EVAL-EXPANDED", facts.where(fn, node), "process() evaluates a condition whose text is %s: an #elif reached in state Inactive sees its macros unexpanded" % (verdict or "not the result of replace_all (%s)" % "; ".join(steps[:4])))
    if n == 0:
        raise AnchorMissing("process(): no evaluate() call found")


# ----------------------------------------------------------------------------- C01 / C18 (a subscript is part of the operand)


@rule("T-SUBSCRIPT-USED", floor=6,
      text="`Expr::Identifier(name, subscript)` is a variable with an optional subscript.  No arm of the generator binds the name and ignores the "
           "subscript (`Expr::Identifier(name, _)`): it either binds the subscript too (and then uses it - tests it for `Expr::Nothing` or evaluates it), or "
           "binds neither (the whole expression is passed on).  An arm that looks at the name alone treats `t[2]` as `t`: `strobe(REGS[2])` strobed REGS, "
           "`sizeof(t[0])` was the size of t")
def t_subscript_used(facts, res, tier):
    n = 0
    for fn in genmodel.gen_fns(facts):
        for m in walk(fn["body"]):
            pats = []
            if m.get("k") == "match":
                pats = [(a["pat"], a["body"]) for a in m["arms"]]
            elif m.get("k") == "letcond":
                pats = [(m["pat"], None)]
            elif m.get("k") == "macro" and m.get("name") == "matches" and m.get("pat") is not None:
                pats = [(m["pat"], None)]
            for p, body in pats:
                for q in ([p] + [x for x in walk_pat(p)]):
                    if q.get("k") == "tstruct" and (q.get("segs") or ["?"])[-1] == "Identifier" and len(q.get("elems", [])) == 2:
                        nm, sub = q["elems"]
                        n += 1
                        binds_name = nm.get("k") == "ident"
                        ignores_sub = sub.get("k") == "wild"
                        key = "T-SUBSCRIPT-USED:%s:%s" % (fn["name"], pat_text(q).replace(" ", ""))
                        used = None
                        if sub.get("k") == "ident" and body is not None:
                            used = any(x.get("k") == "path" and x["segs"] == [sub["name"]] for x in walk(body))
                        res.inst(key, True, {"function": fn["name"], "binds_name": binds_name, "subscript": "ignored" if ignores_sub else ("bound, used" if used else "bound" if used is None else "bound, NOT used")})
                        if binds_name and ignores_sub:
                            res.fail(key, facts.where(fn, m), "%s matches `%s`: the name is used and the subscript ignored, so `%s[i]` is treated as `%s`" % (fn["name"], pat_text(q), nm.get("name"), nm.get("name")))
                        if used is False:
                            res.fail(key, facts.where(fn, m), "%s binds the subscript of `%s` and never looks at it" % (fn["name"], pat_text(q)))
    if n == 0:
        raise AnchorMissing("no Expr::Identifier pattern found in the generator")


def walk_pat(p):
    if not isinstance(p, dict):
        return
    for k in ("elems", "alts", "fields"):
        for x in p.get(k, []) or []:
            y = x.get("pat") if k == "fields" and isinstance(x, dict) and "pat" in x else x
            if isinstance(y, dict):
                yield y
                for z in walk_pat(y):
                    yield z
    for k in ("pat", "sub", "e"):
        if isinstance(p.get(k), dict):
            yield p[k]
            for z in walk_pat(p[k]):
                yield z


# ----------------------------------------------------------------------------- C01 (the type of ?:)


def _implied(doms):
    """(condition text, truth) pairs known at a node: enclosing conditions, and the negation of every earlier `if c { <diverges> }`."""
    out = []
    for d in doms:
        if d[0] == "cond":
            out.append((expr_text(d[1]).replace(" ", "").strip("()"), d[2], d[1]))
        elif d[0] == "stmt" and d[1].get("k") == "if" and d[1].get("else") is None:
            t = expr_text(d[1]["then"]).replace(" ", "")
            if t.startswith("{return") or t.startswith("return") or t.startswith("{unreachable!") or t.startswith("{panic!"):
                out.append((expr_text(d[1]["cond"]).replace(" ", "").strip("()"), False, d[1]["cond"]))
    return out


@rule("T-TERNARY-TYPE", floor=2,
      text="`c ? a : b` has one type (signedness) for both alternatives: generate_ternary hands back the type of one alternative only where the two "
           "types were compared and found equal - on every `Ok(..)` it reaches after evaluating both, `la != ra` is known false (or `la == ra` known "
           "true) with no other way in.  Letting a constant \"take the type of the other side\" accepts `c ? sc : 200`, whose value 200 is then shifted, "
           "compared and widened as a signed char")
def t_ternary_type(facts, res, tier):
    from scopes import scoped
    fn = facts.fn("generate_ternary", genmodel.GEN_QUAL)
    n = 0
    for node, env, doms in scoped(fn):
        if not (node.get("k") == "call" and expr_text(node["func"]).strip() == "Ok" and node.get("args")):
            continue
        # only results produced after both alternatives were assigned (la and ra in scope)
        if "la" not in env or "ra" not in env:
            continue
        n += 1
        known = _implied(doms)
        eq = any((t in ("la!=ra", "ra!=la") and pol is False) or (t in ("la==ra", "ra==la") and pol is True) for t, pol, _ in known)
        key = "T-TERNARY-TYPE:%s" % expr_text(node).replace(" ", "")[:30]
        res.inst(key, True, {"result": expr_text(node)[:40], "types_known_equal": eq})
        if not eq:
            res.fail(key, facts.where(fn, node), "generate_ternary returns `%s` on a path where the types of the two alternatives are not known to be equal: one alternative is then treated with the signedness of the other" % expr_text(node)[:40])
    if n == 0:
        raise AnchorMissing("generate_ternary: no result produced after both alternatives (la, ra) found")


# ----------------------------------------------------------------------------- C06 (the position of the child, not of the parent)


@rule("T-POS-LOOP", floor=5,
      text="where the front end walks the children of a parse pair in a loop (`for p in <pair>.into_inner()`) and reports an error about one of them, the "
           "position it gives was taken inside the loop (bound or assigned there, from the child), not before it from the enclosing pair: the children of "
           "one declaration may lie on several lines, and a position taken once for all of them names the line of the first")
def t_pos_loop(facts, res, tier):
    from scopes import scoped
    n = 0
    for fn in facts.fns:
        if fn.get("test") or not fn["file"].endswith("compile.rs"):
            continue
        loops = [l for l in walk(fn["body"]) if l.get("k") == "for" and "into_inner()" in expr_text(l.get("iter") or {})]
        if not loops:
            continue
        sc = None
        for lp in loops:
            body_ids = {id(x) for x in walk(lp["body"])}
            lets_inside = {x["pat"]["name"] for x in walk(lp["body"]) if x.get("k") == "let" and x["pat"].get("k") == "ident"}
            assigned_inside = {expr_text(x["l"]).strip() for x in walk(lp["body"]) if x.get("k") == "assign"}
            # errors raised directly in this loop (not in a nested loop over grandchildren, which is judged on its own)
            nested = [l2 for l2 in walk(lp["body"]) if l2 is not lp and l2.get("k") == "for" and "into_inner()" in expr_text(l2.get("iter") or {})]
            nested_ids = {id(x) for l2 in nested for x in walk(l2["body"])}
            for c in walk(lp["body"]):
                if id(c) in nested_ids:
                    continue
                if not (c.get("k") == "mcall" and c["method"] in ("syntax_error", "compiler_error") and len(c.get("args", [])) >= 2):
                    continue
                pa = c["args"][-1]
                if not (pa.get("k") == "path" and len(pa["segs"]) == 1):
                    continue
                nm = pa["segs"][0]
                n += 1
                inside = nm in lets_inside or nm in assigned_inside
                key = "T-POS-LOOP:%s:%s:%s" % (fn["name"], expr_text(lp["iter"]).replace(" ", "")[:24], nm)
                res.inst(key, True, {"function": fn["name"], "loop_over": expr_text(lp["iter"])[:30], "position": nm, "taken_inside_the_loop": inside})
                if not inside:
                    res.fail(key, facts.where(fn, c), "%s reports an error about a child of `%s` at `%s`, which was taken before the loop over the children: every child is reported where the first one stands" % (fn["name"], expr_text(lp["iter"])[:30], nm))
    if n == 0:
        raise AnchorMissing("no error raised inside a loop over the children of a pair found")


# ----------------------------------------------------------------------------- C14 (line numbers held by the generator)


@rule("T-CODE-APPEND-ONLY", floor=5,
      text="while a function is generated the generator keeps line numbers of its AssemblyCode (the placeholder returned by append_dummy(), filled "
           "later through set(line, ..) with the `STY cctmp` that saves Y).  The functions of AssemblyCode that run in that phase - the append_* family "
           "and set - only add lines at the end or overwrite one in place: none removes, inserts or reorders lines of `self.code`.  (optimize and "
           "check_branches run when generation is over and are not concerned.)  append_code compacting the caller's code after a paste moves every "
           "later line, and the pending `STY cctmp` lands on an instruction of the argument set-up")
def t_code_append_only(facts, res, tier):
    n = 0
    ok_methods = {"push", "len", "get", "get_mut", "iter", "iter_mut", "last", "last_mut", "is_empty", "extend", "extend_from_slice", "append", "reserve", "first", "capacity"}
    for fn in facts.fns:
        if not fn["file"].endswith("assemble.rs") or "AssemblyCode" not in fn.get("qual", "") or fn.get("test"):
            continue
        if not (fn["name"].startswith("append") or fn["name"] in ("set", "push_code")):
            continue
        n += 1
        key = "T-CODE-APPEND-ONLY:%s" % fn["name"]
        uses = []
        for x in walk(fn["body"]):
            if x.get("k") == "mcall" and expr_text(x["recv"]).replace(" ", "") in ("self.code", "&mutself.code", "(&mutself.code)"):
                uses.append(x["method"])
                if x["method"] not in ok_methods:
                    res.fail(key, facts.where(fn, x), "%s calls `self.code.%s(..)`: lines are removed, inserted or reordered while the generator may hold a line number of this code (the placeholder of a pending `STY cctmp`)" % (fn["name"], x["method"]))
            if x.get("k") == "assign" and expr_text(x["l"]).replace(" ", "") == "self.code":
                res.fail(key, facts.where(fn, x), "%s replaces `self.code`" % fn["name"])
        res.inst(key, True, {"function": fn["name"], "uses_of_self_code": sorted(set(uses))})
    # which functions of AssemblyCode can change a line that is already there: `set` (the placeholder of a pending STY cctmp, at the line
    # number the generator holds) during generation, optimize and check_branches once generation is over - and no other
    LINE_WRITERS = {"set": "fills the placeholder at the line number it is given", "optimize": "runs after generation", "check_branches": "runs after generation"}
    for fn in facts.fns:
        if not fn["file"].endswith("assemble.rs") or "AssemblyCode" not in fn.get("qual", "") or fn.get("test"):
            continue
        rewrites = []
        for x in walk(fn["body"]):
            if x.get("k") in ("assign", "assignop"):
                l = x["l"]
                while isinstance(l, dict) and l.get("k") in ("unary", "paren"):
                    l = l["e"]
                lt = expr_text(l).replace(" ", "")
                if lt.startswith("self.code[") or re.match(r"^\*?self\.code\.(get_mut|last_mut|first_mut|iter_mut)", lt):
                    rewrites.append(x)
            if x.get("k") == "mcall" and x["method"] in ("remove", "insert", "swap", "swap_remove", "retain", "drain", "truncate", "clear", "split_off", "pop", "iter_mut") and expr_text(x["recv"]).replace(" ", "") == "self.code":
                rewrites.append(x)
        if rewrites:
            key = "T-CODE-APPEND-ONLY:line-writer:%s" % fn["name"]
            res.inst(key, True, {"function": fn["name"], "admitted": LINE_WRITERS.get(fn["name"])})
            if fn["name"] not in LINE_WRITERS:
                res.fail(key, facts.where(fn, rewrites[0]), "AssemblyCode::%s rewrites or removes a line of `self.code` (`%s`): outside set / optimize / check_branches nothing changes a line the generator has already emitted (a restore of Y dropped retroactively, a placeholder moved)" % (fn["name"], expr_text(rewrites[0])[:50]))
    if n == 0:
        raise AnchorMissing("AssemblyCode::append_* / set not found")


@rule("T-SEQ-COND", floor=5,
      text="the part of T-SEQ-POINT that concerns conditions, run on its own under C15 (`if (c) A else B` against `if (!c) B else A`, a `for` "
           "against its `while`: the pending ++/-- of the condition take effect on both outcomes, whichever way the branch is spelled): the wrapper "
           "protocol of generate_condition and the completeness of has_post_incdec")
def t_seq_cond(facts, res, tier):
    from core import Result
    tmp = Result()
    t_seq_point(facts, tmp, tier)
    keep = lambda k: ":condition" in k or ":has_post_incdec:" in k
    for key, nt, sample in tmp.instances:
        if keep(key):
            res.inst(key.replace("T-SEQ-POINT", "T-SEQ-COND", 1), nt, sample)
    for v in tmp.violations:
        if keep(v.key):
            res.fail(v.key.replace("T-SEQ-POINT", "T-SEQ-COND", 1), v.where, v.msg, getattr(v, "detail", None))


ENTRY_STATE = {"flags": "FlagsState::Unknown", "carry_flag_ok": "false"}


def _entry_guard_ok(c, pol):
    """the reset may depend on nothing but `no instruction has been generated for the current function yet`"""
    t = expr_text(c).replace(" ", "")
    if c.get("k") == "letcond":
        return pol and pat_text(c["pat"]).replace(" ", "").startswith("Some(") and expr_text(c["e"]).replace(" ", "") .lstrip("&") in ("self.current_function", "self.current_function.as_ref()", "self.current_function.clone()")
    if not pol or "self.functions_code" not in t:
        return False
    # <self.functions_code.get(f)>.map_or(true, |c| <c is empty>)   /   .is_none_or(|c| <c is empty>)
    if c.get("k") == "mcall" and c["method"] in ("map_or", "is_none_or"):
        args = c["args"]
        if c["method"] == "map_or":
            if not (args and args[0].get("k") == "lit" and args[0].get("v") is True):
                return False
            args = args[1:]
        if len(args) == 1 and args[0].get("k") == "closure":
            b = expr_text(args[0]["body"]).replace(" ", "")
            return bool(re.fullmatch(r"[{(]*\w+\.(size_bytes\(\)==0|is_empty\(\))[)}]*", b))
    return False


@rule("T-ENTRY-FLAGS", floor=2,
      text="what the generator believes of the processor (flags: which value the Z/N flags reflect; carry_flag_ok) describes the code generated so far "
           "for the function at hand.  A driver generates the functions one after the other with the same GeneratorState, through generate_statement, and "
           "cannot reach these private fields: generate_statement itself forgets them - before it emits anything, unconditionally or under the sole "
           "condition that no instruction of the current function exists yet - or `if (x)` at the head of a function branches on the flags left by the "
           "last statement of the previous one.  Nothing else is assigned to these fields there: no belief holds at every place the body is expanded")
def t_entry_flags(facts, res, tier):
    from scopes import scoped
    fn = next((f for f in facts.fns if f["name"] == "generate_statement" and not f.get("test")), None)
    if fn is None:
        raise AnchorMissing("generate_statement not found")
    stmts = fn["body"].get("stmts", [])
    # the first top-level statement that calls a method of the generator (emits, purges, recurses)
    first_emit = next((i for i, s in enumerate(stmts) if any(x.get("k") == "mcall" and expr_text(x["recv"]) == "self" for x in walk(s))), len(stmts))
    top_of = {}
    for i, s in enumerate(stmts):
        for x in walk(s):
            top_of[id(x)] = i
    found = {}
    for node, env, doms in scoped(fn):
        if node.get("k") != "assign":
            continue
        l = expr_text(node["l"]).replace(" ", "")
        if not l.startswith("self.") or l[5:] not in ENTRY_STATE:
            continue
        field = l[5:]
        if top_of.get(id(node), len(stmts)) >= first_emit:
            continue
        if expr_text(node["r"]).replace(" ", "") != ENTRY_STATE[field]:
            # nothing has been emitted for this function: whatever the flags reflect was left by other code (the previous function; for an
            # inline body, whatever each call site happened to end with)
            res.fail("T-ENTRY-FLAGS:%s:other-value" % field, facts.where(fn, node), "generate_statement sets `self.%s = %s` before anything is emitted for the current function: at that point nothing can be "
                     "known of the processor (a body generated once, an inline function, is expanded after call sites that leave different flags)" % (field, expr_text(node["r"])))
            continue
        conds = [(d[1], d[2]) for d in doms if d[0] == "cond"]
        arms = [d for d in doms if d[0] == "arm"]
        bad = [expr_text(c) for c, pol in conds if not _entry_guard_ok(c, pol)]
        bad += ["match arm %s" % pat_text(a[2]) for a in arms
                if not (pat_text(a[2]).replace(" ", "").startswith("Some(") and expr_text(a[1]).replace(" ", "") .lstrip("&") in ("self.current_function", "self.current_function.as_ref()", "self.current_function.clone()"))]
        found.setdefault(field, []).append((node, bad))
    # the block runs before every statement until the function has emitted its first byte - possibly many times: it may only forget
    # what is believed of the processor (idempotent), never a counter or a stack
    for node, env, doms in scoped(fn):
        if node.get("k") in ("assign", "assignop") and top_of.get(id(node), len(stmts)) < first_emit:
            l = expr_text(node["l"]).replace(" ", "")
            if l.startswith("self.") and l[5:] not in ENTRY_STATE:
                res.fail("T-ENTRY-FLAGS:other-state:%s" % l[5:], facts.where(fn, node), "generate_statement assigns `%s` in the block guarded by `no instruction generated yet`: that block runs before every statement until the first byte is emitted (a function that opens with `do {` runs it again inside the loop), so a counter reset there hands out the same label number twice" % l)
    for field, want in ENTRY_STATE.items():
        key = "T-ENTRY-FLAGS:%s" % field
        cands = found.get(field, [])
        good = [n for n, bad in cands if not bad]
        if good:
            res.inst(key, True, {"field": field, "reset_to": want, "at": facts.where(fn, good[0])})
        elif cands:
            n, bad = cands[0]
            res.fail(key, facts.where(fn, n), "generate_statement resets `self.%s` at the head only under `%s`: something other than `nothing generated for the current function yet` decides whether the belief of the previous function is dropped" % (field, "` and `".join(bad)))
        else:
            res.fail(key, facts.where(fn, fn["body"]), "generate_statement emits without first setting `self.%s = %s` for a function whose code is still empty: the first statement of a function is generated with what was believed at the end of the previous one" % (field, want))


LOC_SLOTS = {"filename": "0", "line": "1", "included_in": "2"}
PASS_THROUGH = {"clone", "to_string", "to_owned", "as_ref", "as_deref", "map", "cloned", "into", "as_str"}


@rule("T-LOC-ORIGIN", floor=12,
      text="where compile.rs builds an Error, its file name, line and `included from` are those of one entry of the line map (the only table that "
           "turns a line of the preprocessed text into a file and a line of the original text): each of the three fields of the literal is, through "
           "locals, casts and clones, component .0/.1/.2 of `mapped_lines[..]` or of the entry a `mapped_lines.get/last/first` yielded - on every "
           "alternative that can supply it.  The only other value admitted is the placeholder used while `mapped_lines.is_empty()` holds.  A line "
           "number taken from the parser as it is counts lines of the preprocessed text: every comment, directive or include above it shifts it")
def t_loc_origin(facts, res, tier):
    from scopes import scoped
    n_lit = 0
    for fn in facts.fns:
        if not fn["file"].endswith("/compile.rs") or fn.get("test"):
            continue
        lits = [n for n in walk(fn["body"]) if n.get("k") == "struct" and (n.get("segs") or [""])[0] == "Error" and any(f.get("name") == "line" for f in n.get("fields", []))]
        if not lits:
            continue
        info = {}
        for node, env, doms in scoped(fn):
            info[id(node)] = (env, doms)

        def under_empty(node):
            env, doms = info.get(id(node), ({}, []))
            return any(d[0] == "cond" and d[2] and expr_text(d[1]).replace(" ", "").endswith("mapped_lines.is_empty()") for d in doms)

        def component(r, i):
            """the expressions that can supply component i of tuple-valued r"""
            k = r.get("k")
            if k == "tuple":
                return [r["elems"][i]] if i < len(r["elems"]) else []
            if k == "match":
                return [c for a in r["arms"] for c in component(a["body"], i)]
            if k == "if":
                out = component(r["then"], i)
                return out + (component(r["else"], i) if r.get("else") else [None])
            if k == "block":
                st = r.get("stmts", [])
                return component(st[-1], i) if st and not st[-1].get("semi") else [None]
            if k == "paren":
                return component(r["e"], i)
            return [None]

        def writes(name):
            out = []
            for x in walk(fn["body"]):
                if x.get("k") == "let" and x.get("init") is not None and x.get("pat", {}).get("k") == "ident" and x["pat"].get("name") == name:
                    out.append(x["init"])
                if x.get("k") == "assign":
                    l = x["l"]
                    if l.get("k") == "path" and l["segs"] == [name]:
                        out.append(x["r"])
                    elif l.get("k") == "tuple":
                        for i, e in enumerate(l["elems"]):
                            if e.get("k") == "path" and e["segs"] == [name]:
                                out.extend(component(x["r"], i))
            return out

        def origin(e, slot, seen):
            """list of (expr, why) that are not a component `slot` of a line-map entry"""
            if e is None:
                return [(None, "an alternative that supplies no value the checker can follow")]
            k = e.get("k")
            if under_empty(e):
                return []
            if k in ("cast", "paren", "ref", "unary"):
                return origin(e["e"], slot, seen)
            if k == "mcall" and e["method"] in PASS_THROUGH:
                return origin(e["recv"], slot, seen)
            if k in ("match", "if", "block"):
                bad = []
                alts = [a["body"] for a in e["arms"]] if k == "match" else ([e["then"]] + ([e["else"]] if e.get("else") else [None])) if k == "if" else [(e.get("stmts") or [None])[-1]]
                for a in alts:
                    bad += origin(a, slot, seen)
                return bad
            if k == "field" and e["name"] == slot:
                b = e["base"]
                if b.get("k") == "index" and expr_text(b["base"]).replace(" ", "").endswith("mapped_lines"):
                    return []
                if b.get("k") == "path" and len(b["segs"]) == 1:
                    env, _ = info.get(id(e), ({}, []))
                    bd = env.get(b["segs"][0])
                    sc = bd.scrut if bd is not None else None
                    if sc is not None and sc.get("k") == "mcall" and sc["method"] in ("get", "last", "first") and expr_text(sc["recv"]).replace(" ", "").endswith("mapped_lines") and "::".join(bd.ctor or []) == "Some":
                        return []
                    if bd is not None and bd.init is not None and bd.init.get("k") in ("index", "ref"):
                        t = expr_text(bd.init).replace(" ", "").lstrip("&")
                        if re.match(r"(self\.)?mapped_lines\[", t):
                            return []
                return [(e, "component .%s of something that is not a line-map entry" % slot)]
            if k == "path" and len(e["segs"]) == 1:
                name = e["segs"][0]
                if name in seen:
                    return []
                ws = writes(name)
                if not ws:
                    return [(e, "`%s` is not written in %s" % (name, fn["name"]))]
                bad = []
                for w in ws:
                    bad += origin(w, slot, seen | {name})
                return bad
            if under_empty(e):
                return []
            return [(e, "not taken from the line map")]

        for lit in lits:
            n_lit += 1
            flds = {f["name"]: f["e"] for f in lit["fields"]}
            for field, slot in LOC_SLOTS.items():
                if field not in flds:
                    continue
                key = "T-LOC-ORIGIN:%s:%s" % (fn["name"], field)
                bad = origin(flds[field], slot, frozenset())
                res.inst(key, True, {"literal": facts.where(fn, lit), "field": field, "value": expr_text(flds[field])[:80]})
                for e, why in bad:
                    res.fail(key, facts.where(fn, e if e is not None else lit),
                             "%s builds an Error whose `%s` can be `%s` (%s): the report names a line of the preprocessed text, or the wrong file, whenever a comment, "
                             "a directive, a skipped region or an include precedes the defect" % (fn["name"], field, expr_text(e)[:60] if e is not None else "?", why))
        # the location pest prints (LineColLocation::Pos / Span rebuilt for the message on stderr): its line components likewise
        for x in walk(fn["body"]):
            if x.get("k") == "call" and x["func"].get("k") == "path" and x["func"]["segs"][:1] == ["LineColLocation"]:
                for a in x["args"]:
                    if a.get("k") == "tuple" and a["elems"]:
                        key = "T-LOC-ORIGIN:%s:LineColLocation::%s" % (fn["name"], x["func"]["segs"][-1])
                        res.inst(key, True, {"where": facts.where(fn, x)})
                        for e, why in origin(a["elems"][0], "1", frozenset()):
                            res.fail(key, facts.where(fn, x), "%s rebuilds the parser's location with line `%s` (%s)" % (fn["name"], expr_text(e)[:60] if e is not None else "?", why))
    if n_lit == 0:
        raise AnchorMissing("no Error literal with a `line` field in compile.rs")


@rule("T-CPP-BODY-EXPANDED", floor=2,
      text="Context::replace_all chooses the macros it tries on a line by matching the ORIGINAL text of the line (RegexSet::matches(s)); a macro "
           "whose name only appears once another has been replaced is never tried.  That is complete only because every body in the tables is "
           "already free of earlier macros: the body handed to define / define_ex in the #define branch of process() is, on every alternative, "
           "`context.replace_all(<text after the name>)` - possibly rewritten afterwards (parameters to ${..}, `##` removed), but never the raw "
           "text.  `#define BASE 16` / `#define REG(n) reg##n + BASE` / `i = REG(1);` otherwise leaves `BASE` in the output")
def t_cpp_body_expanded(facts, res, tier):
    fn = facts.fn("process", "")
    n = 0

    def writes(name):
        out = []
        for x in walk(fn["body"]):
            if x.get("k") == "let" and x.get("init") is not None and x.get("pat", {}).get("k") == "ident" and x["pat"].get("name") == name:
                out.append(x["init"])
            if x.get("k") == "assign" and x["l"].get("k") == "path" and x["l"]["segs"] == [name]:
                out.append(x["r"])
        return out

    def raw_sources(e, seen):
        """alternatives that can supply the value without passing through replace_all"""
        while isinstance(e, dict) and e.get("k") in ("paren", "ref", "try", "cast"):
            e = e["e"]
        if e is None:
            return ["?"]
        k = e.get("k")
        if k == "mcall" and e["method"] == "replace_all" and expr_text(e["recv"]).replace(" ", "") in ("context", "self"):
            return []
        if k in ("match", "if", "block"):
            alts = [a["body"] for a in e["arms"]] if k == "match" else ([e["then"]] + ([e["else"]] if e.get("else") else [None])) if k == "if" else [(e.get("stmts") or [None])[-1]]
            return [r for a in alts for r in raw_sources(a, seen)]
        if k == "tuple":
            return [r for a in e["elems"] for r in raw_sources(a, seen)]
        names = [x["segs"][0] for x in walk(e) if x.get("k") == "path" and len(x["segs"]) == 1]
        if k == "path" and len(e["segs"]) == 1:
            nm = e["segs"][0]
            if nm in seen:
                return []
            ws = writes(nm)
            if not ws:
                return ["`%s`" % nm]
            return [r for w in ws for r in raw_sources(w, seen | {nm})]
        # a rewriting of a local that is itself expanded (value.replace(..), re.replace_all(&value, ..).to_string())
        locs = [nm for nm in names if writes(nm)]
        own = [nm for nm in locs if nm in seen]
        if own:
            return []
        return ["`%s`" % expr_text(e)[:60]]

    for x in walk(fn["body"]):
        if x.get("k") == "mcall" and x["method"] in ("define", "define_ex") and expr_text(x["recv"]).replace(" ", "") == "context" and len(x["args"]) == 2:
            n += 1
            body = x["args"][1]
            if body.get("k") == "tuple":
                body = body["elems"][-1]
            key = "T-CPP-BODY-EXPANDED:%s" % x["method"]
            raw = raw_sources(body, frozenset())
            res.inst(key, True, {"call": facts.where(fn, x), "body": expr_text(body)[:40]})
            for r in raw:
                res.fail(key, facts.where(fn, x), "process() can store a macro body that is %s and not the result of context.replace_all: an earlier macro named in that body is not among the candidates replace_all picks from the text of the line that uses the macro, and stays in the output" % r)
    if n == 0:
        raise AnchorMissing("process(): no context.define / define_ex call found")


IDENTITY_METHODS = {"clone", "to_string", "to_owned", "into", "as_str", "as_ref", "borrow", "deref", "into_owned"}


@rule("T-ASM-TEXT-VERBATIM", floor=4,
      text="the text of an asm(\"..\") statement is a literal: from the statement (Statement::Asm) to the line of assembly (AsmLine::Inline) it is "
           "only handed on.  Every `AsmLine::Inline(t, ..)` built in the crate takes `t` unchanged from a parameter of its function or from the "
           "text of another Inline / Statement::Asm it was matched out of, and every call of a function that hands such a parameter on passes its "
           "own parameter or a matched text, up to the statement.  A text built with format!, a regex replacement or any other call is a rewritten "
           "literal (append_code suffixing `.word` inside the text turns `.byte $2c` into `.byteinline1 $2c`)")
def t_asm_text_verbatim(facts, res, tier):
    from scopes import scoped
    fns = [f for f in facts.fns if not f.get("test") and "/tests/" not in f["file"]]

    def identity_root(e):
        while isinstance(e, dict):
            k = e.get("k")
            if k in ("paren", "ref", "cast"):
                e = e["e"]
            elif k == "unary" and e.get("op") in ("*", "&"):
                e = e["e"]
            elif k == "mcall" and e["method"] in IDENTITY_METHODS and not e["args"]:
                e = e["recv"]
            else:
                break
        return e

    carriers = {}   # (fn name) -> param index (0-based among non-self params) of the text
    work = []
    n = 0

    def judge(fn, node, arg, what, env):
        """arg must be the function's own parameter, or a matched Inline/Asm text; returns the param index if a parameter"""
        r = identity_root(arg)
        if isinstance(r, dict) and r.get("k") == "path" and len(r["segs"]) == 1:
            nm = r["segs"][0]
            b = env.get(nm)
            if b is not None and b.src == "param":
                names = [p["name"] for p in fn.get("params", []) if p["name"] != "self"]
                return ("param", names.index(nm)) if nm in names else ("bad", "`%s`" % nm)
            if b is not None and b.src == "pat" and (b.ctor or [""])[-1] in ("Inline", "Asm") and b.idx == 0:
                return ("matched", "::".join(b.ctor))
            if b is not None and b.src in ("let", "pat") and b.init is not None:
                return judge(fn, node, b.init, what, env)
            return ("bad", "`%s` (%s)" % (nm, "bound by " + b.src if b is not None else "not a local"))
        return ("bad", "`%s`" % expr_text(arg)[:70])

    # 1. constructor sites
    for fn in fns:
        for node, env, doms in scoped(fn):
            if node.get("k") == "call" and node["func"].get("k") == "path" and node["func"]["segs"][-2:] == ["AsmLine", "Inline"] and node["args"]:
                n += 1
                key = "T-ASM-TEXT-VERBATIM:%s:AsmLine::Inline" % fn["name"]
                v = judge(fn, node, node["args"][0], "builds", env)
                res.inst(key, True, {"where": facts.where(fn, node), "text": expr_text(node["args"][0])[:40], "is": list(v)})
                if v[0] == "bad":
                    res.fail(key, facts.where(fn, node), "%s builds an AsmLine::Inline whose text is %s: the literal of an asm() statement is rewritten on its way to the output" % (fn["name"], v[1]))
                elif v[0] == "param":
                    carriers[fn["name"]] = v[1]
                    work.append(fn["name"])
    # 2. callers of the carriers, transitively
    done = set()
    while work:
        callee = work.pop()
        if callee in done:
            continue
        done.add(callee)
        idx = carriers[callee]
        for fn in fns:
            for node, env, doms in scoped(fn):
                if node.get("k") == "mcall" and node["method"] == callee and len(node["args"]) > idx:
                    n += 1
                    key = "T-ASM-TEXT-VERBATIM:%s:%s" % (fn["name"], callee)
                    v = judge(fn, node, node["args"][idx], "passes", env)
                    res.inst(key, True, {"where": facts.where(fn, node), "text": expr_text(node["args"][idx])[:40], "is": list(v)})
                    if v[0] == "bad":
                        res.fail(key, facts.where(fn, node), "%s hands %s to %s as the text of an asm() line: not the literal of the statement as it was written" % (fn["name"], v[1], callee))
                    elif v[0] == "param" and fn["name"] not in carriers:
                        carriers[fn["name"]] = v[1]
                        work.append(fn["name"])
    if not carriers:
        raise AnchorMissing("no AsmLine::Inline built from a parameter")


@rule("T-OPERAND-ERR-KEPT", floor=8,
      text="the operands a Pratt callback receives (lhs / rhs of map_infix, map_prefix, map_postfix in parse_calc, parse_expr_ex and "
           "parse_expr_init_value_ex) are Results: an Err is a sub-expression that was rejected (division by zero, a constant that does not fit, an "
           "unknown name).  An operand is only ever opened with `?` - or by a match / if let whose every alternative able to receive the Err hands "
           "that Err back.  A catch-all arm, unwrap_or, ok(), is_ok() on an operand turns a rejected sub-expression into some value: "
           "`1 ? 1/0 : 7` becomes 7")
def t_operand_err_kept(facts, res, tier):
    from rules_literals import closure_arg
    n = 0
    for fn in facts.fns:
        if fn.get("test") or closure_arg(fn, "map_primary") is None:
            continue
        for x in walk(fn["body"]):
            if not (x.get("k") == "mcall" and x["method"] in ("map_infix", "map_prefix", "map_postfix") and x["args"] and x["args"][0].get("k") == "closure"):
                continue
            c = x["args"][0]
            ops = [p.get("name") for p in c["params"] if p.get("name") in ("lhs", "rhs")]
            par = _parents(c["body"])
            for name in ops:
                n += 1
                key = "T-OPERAND-ERR-KEPT:%s:%s:%s" % (fn["name"], x["method"], name)
                uses = [u for u in walk(c["body"]) if u.get("k") == "path" and u["segs"] == [name]]
                res.inst(key, True, {"uses": len(uses)})
                for u in uses:
                    p, slot, _ = par[id(u)]
                    pk = p.get("k")
                    if pk == "try":
                        continue
                    if pk == "match" and slot == "e":
                        bad = None
                        for a in p["arms"]:
                            pt = pat_text(a["pat"]).replace(" ", "")
                            takes_err = pt == "_" or re.fullmatch(r"\w+", pt) or pt.startswith("Err(") or (pt.startswith("Ok(") is False and "Err" in pt)
                            if not takes_err:
                                continue
                            m = re.fullmatch(r"Err\((\w+)\)", pt)
                            bt = expr_text(a["body"]).replace(" ", "")
                            if m and a.get("guard") is None and re.search(r"Err\(%s(\.clone\(\))?\)" % m.group(1), bt):
                                continue
                            bad = a
                            break
                        if bad is None:
                            continue
                        res.fail(key, facts.where(fn, bad["body"]), "%s: a %s callback matches its operand `%s` and the arm `%s` can receive its Err without handing it back: a rejected sub-expression (division by zero, constant out of range) is given a value" % (fn["name"], x["method"], name, pat_text(bad["pat"])))
                        continue
                    res.fail(key, facts.where(fn, u), "%s: a %s callback uses its operand `%s` otherwise than through `?` (in `%s`): the Err of a rejected sub-expression can be dropped" % (fn["name"], x["method"], name, expr_text(p)[:60]))
    if n == 0:
        raise AnchorMissing("no Pratt callback with Result operands found")


def _diverges_err(n):
    """the node is (or ends in) `return Err(..)` / `Err(..)?` / unreachable!: no code follows on this path"""
    n = _unwrap_try(n)
    if not isinstance(n, dict):
        return False
    k = n.get("k")
    if k == "return":
        return True
    if k == "macro" and n.get("name") in ("unreachable", "panic", "unimplemented", "todo"):
        return True
    if k == "block":
        return any(_diverges_err(s) for s in n.get("stmts", []))
    if k == "match":
        return all(_diverges_err(a["body"]) for a in n["arms"])
    if k == "if":
        return n.get("else") is not None and _diverges_err(n["then"]) and _diverges_err(n["else"])
    return False


@rule("T-SUBSTMT-ALL", floor=5,
      text="a generator function that receives a sub-statement of the statement it translates (the body of a loop, the two alternatives of an if: "
           "parameters of type &StatementLoc or Option<&StatementLoc>) hands it to generate_statement - or to another such function - on every path "
           "that returns normally, whatever the condition turned out to be at compile time.  The only alternatives that may do without are the one "
           "where the Option is None and the one that has recognised, by matching on `<stmt>.statement`, a statement without sub-statements AND "
           "without a label (`<stmt>.label.is_none()`).  A statement that is not generated takes its goto label, case labels and loop labels with "
           "it: `JMP .L` is emitted and `.L` never is")
def t_substmt_all(facts, res, tier):
    gen = {f["name"]: f for f in genmodel.gen_fns(facts)}
    takers = {}
    for name, fn in gen.items():
        ps = [p["name"] for p in fn.get("params", []) if "StatementLoc" in p.get("ty", "") and "Vec" not in p.get("ty", "")]
        if ps and name != "generate_statement":
            takers[name] = ps
    if not takers:
        raise AnchorMissing("no generator function takes a sub-statement")
    n = 0
    for name, ps in sorted(takers.items()):
        fn = gen[name]
        for P in ps:
            n += 1
            key = "T-SUBSTMT-ALL:%s:%s" % (name, P)
            gaps = []

            def hands_on(x, names):
                x = _unwrap_try(x)
                return _self_call(x) and (x["method"] == "generate_statement" or x["method"] in takers) and any(_mentions(a, v) for a in x.get("args", []) for v in names)

            def must(nd, names):
                """True when every normally completing path through nd hands one of `names` on"""
                nd = _unwrap_try(nd)
                if not isinstance(nd, dict):
                    return False
                k = nd.get("k")
                if hands_on(nd, names):
                    return True
                if k == "block":
                    return any(must(s, names) or _diverges_err(s) for s in nd.get("stmts", []))
                if k == "if":
                    cond = nd["cond"]
                    if must(cond, names):
                        return True
                    tn = list(names)
                    if cond.get("k") == "letcond" and _mentions(cond["e"], P) and pat_text(cond["pat"]).replace(" ", "").startswith("Some("):
                        tn += scopes_pat_names(cond["pat"])
                    t = must(nd["then"], tn) or _diverges_err(nd["then"])
                    if nd.get("else") is None:
                        # `if let Some(s) = P { generate(s) }`: nothing to generate when None
                        e = cond.get("k") == "letcond" and expr_text(cond["e"]).replace(" ", "").lstrip("&") in names and pat_text(cond["pat"]).replace(" ", "").startswith("Some(")
                    else:
                        e = must(nd["else"], names) or _diverges_err(nd["else"])
                    if not (t and e) and not any(hands_on(x, tn) for x in walk(nd)):
                        return False
                    if not t and not any(g[0] is not None and any(y is g[0] for y in walk(nd["then"])) for g in gaps):
                        gaps.append((nd["then"], "the branch taken when `%s`" % expr_text(cond)[:50]))
                    if not e and not (nd.get("else") and any(any(y is g[0] for y in walk(nd["else"])) for g in gaps)):
                        gaps.append((nd.get("else") or nd, "the branch taken when not `%s`" % expr_text(cond)[:50]))
                    return t and e
                if k == "match":
                    if must(nd["e"], names):
                        return True
                    sc = expr_text(nd["e"]).replace(" ", "").lstrip("&")
                    on_option = sc in names or sc in [v + ".as_ref()" for v in names]
                    on_kind = any(sc == v + ".statement" for v in names)
                    ok = True
                    allnames = list(names) + [v for a in nd["arms"] for v in (scopes_pat_names(a["pat"]) if on_option else [])]
                    if not any(hands_on(x, allnames) for x in walk(nd)):
                        return all(_diverges_err(a["body"]) for a in nd["arms"])
                    for a in nd["arms"]:
                        an = list(names) + (scopes_pat_names(a["pat"]) if on_option else [])
                        pt = pat_text(a["pat"]).replace(" ", "")
                        if on_option and pt == "None":
                            continue
                        if must(a["body"], an) or _diverges_err(a["body"]):
                            continue
                        if on_kind and pt.startswith("Statement::") and "(" not in pt and a.get("guard") is not None and any(expr_text(a["guard"]).replace(" ", "") == v + ".label.is_none()" for v in names):
                            continue
                        ok = False
                        if any(any(y is g[0] for y in walk(a["body"])) for g in gaps):
                            continue
                        gaps.append((a["body"], "the arm `%s`%s" % (pat_text(a["pat"])[:40], " if " + expr_text(a["guard"])[:40] if a.get("guard") is not None else "")))
                    return ok
                if k in ("for", "while", "loop", "closure"):
                    return False
                if k == "let":
                    return must(nd.get("init"), names) if nd.get("init") is not None else False
                if k in ("mcall", "call"):
                    return any(must(a, names) for a in ([nd.get("recv")] if k == "mcall" else []) + list(nd.get("args", [])))
                if k in ("assign", "assignop"):
                    return must(nd.get("r"), names)
                return False

            whole = must(fn["body"], [P])
            res.inst(key, True, {"function": name, "sub_statement": P, "generated_on_every_path": whole})
            if not whole:
                if not gaps:
                    gaps.append((fn["body"], "the body"))
                seen = set()
                for g, what in gaps:
                    if what in seen:
                        continue
                    seen.add(what)
                    res.fail(key, facts.where(fn, g), "%s does not hand its sub-statement `%s` to generate_statement on %s: a goto label, case label or loop label inside it is never emitted while jumps to it are" % (name, P, what))


OPERAND_RELATION_EXCEPTIONS = {
    # helper: why a relation other than equality of the text is sound
    "immediates_differ": "answers `known to differ`, never `same`: true only when both texts are plain decimal immediates whose low bytes differ (checked below: the body yields true only under both parse() being Ok)",
}


@rule("T-OPERAND-IDENTITY", floor=10,
      text="the assembler layer knows an operand only as text (`dasm_operand`): `big+128` may be the read port of a superchip variable or element "
           "128 of an ordinary array, `tab,X` and `tab` overlap or not depending on X.  Wherever optimize() or check_branches() relate the operand of "
           "one instruction to that of another, or to the text a register is known to hold, in order to call them the same cell or the same target, the "
           "relation is equality of the whole text (`==`, `!=`, eq, ne, or a helper whose body is that comparison).  Anything that calls two different "
           "texts the same - an offset rule, a prefix - deletes a load or a store of an ordinary variable")
def t_operand_identity(facts, res, tier):
    from scopes import scoped
    n = 0
    helpers = {f["name"]: f for f in facts.fns if f["file"].endswith("assemble.rs") and not f.get("qual") and not f.get("test")}
    for fn in facts.fns:
        if not fn["file"].endswith("assemble.rs") or fn.get("test") or fn["name"] not in ("optimize", "check_branches"):
            continue
        for node, env, doms in scoped(fn):
            k = node.get("k")
            if k == "binary" and node["op"] not in ("&&", "||"):
                sides = [node["l"], node["r"]]
                how = node["op"]
            elif k == "mcall" and node["method"] not in ("push", "write", "insert", "clone", "to_string", "set", "append_asm"):
                sides = [node["recv"]] + list(node.get("args", []))
                how = node["method"]
            elif k == "call" and node["func"].get("k") == "path" and node["func"]["segs"][-1] in helpers:
                sides = list(node.get("args", []))
                how = node["func"]["segs"][-1]
            else:
                continue
            if len(sides) < 2:
                continue
            opd = [s for s in sides if "dasm_operand" in expr_text(s)]
            if not opd:
                continue
            others = [s for s in sides if not any(s is o for o in opd)]
            # a relation to a literal (`starts_with('#')`, `== "cctmp"`) says something of one text, it does not relate two
            if len(opd) < 2 and all(x.get("k") == "lit" or (x.get("k") in ("ref", "paren") and x["e"].get("k") == "lit") for x in others):
                continue
            if len(opd) < 2 and not others:
                continue
            n += 1
            key = "T-OPERAND-IDENTITY:%s:%s" % (fn["name"], how)
            res.inst(key, True, {"function": fn["name"], "relation": expr_text(node)[:90]})
            ok = (k == "binary" and how in ("==", "!=")) or (k == "mcall" and how in ("eq", "ne"))
            if k == "call":
                h = helpers[how]
                stmts = h["body"].get("stmts") or []
                ps = [p.get("name") for p in h.get("params", [])]
                if len(stmts) == 1:
                    e = stmts[0]
                    while e.get("k") == "paren":
                        e = e["e"]
                    if e.get("k") == "binary" and e["op"] in ("==", "!=") and len(ps) == 2 and all(_mentions(e, p) for p in ps):
                        ok = True
                if how in OPERAND_RELATION_EXCEPTIONS and how == "immediates_differ":
                    # premise of the exception: a single match on the two parses; only the (Ok, Ok) arm can yield true
                    bt = expr_text(h["body"]).replace(" ", "")
                    m = stmts[0] if len(stmts) == 1 and stmts[0].get("k") == "match" else None
                    premise = m is not None and bt.count(".parse(") == 2 and all(
                        pat_text(a["pat"]).replace(" ", "").startswith("(Ok(") and pat_text(a["pat"]).count("Ok(") == 2 or expr_text(a["body"]).replace(" ", "") == "false" for a in m["arms"])
                    if premise:
                        ok = True
                    else:
                        res.fail(key + ":premise", facts.where(h, h["body"]), "the premise under which `%s` is admitted no longer holds (%s)" % (how, OPERAND_RELATION_EXCEPTIONS[how][:80]))
                        ok = True
            if not ok:
                res.fail(key, facts.where(fn, node), "%s relates two operand texts with `%s`, which is not equality of the whole text: two different texts are called the same cell (`big` and `big+128` of an ordinary array, say) and a load or store between them is dropped" % (fn["name"], expr_text(node)[:80]))
    res.note("%d operand relations" % n)


@rule("T-ALT-JUMP", floor=4,
      text="where the generator lays out two alternatives one after the other - code for the first, `label(E)`, code for the second, `label(F)` later in "
           "the same block, E having been handed earlier in that block to the call that emits the branch to it - the statement just before `label(E)` "
           "is the unconditional `asm(JMP, Label(F))` (or leaves the function): the first alternative must not run into the second.  Whether that "
           "jump is needed cannot be read off the code emitted so far (a `JMP .endof` seen as the last instruction may be followed by a label, "
           "i.e. by reachable code): a jump emitted under a condition lets `if (c) { if (d) return 1; } else x = 2;` fall into the else part - in the "
           "inline copy of a function only")
def t_alt_jump(facts, res, tier):
    n = 0
    for fn in genmodel.gen_fns(facts):
        for b in walk(fn["body"]):
            if b.get("k") != "block":
                continue
            st = [_unwrap_try(s) for s in b.get("stmts", [])]
            labs = [(i, expr_text(s["args"][0]).replace(" ", "").lstrip("&")) for i, s in enumerate(st) if _self_call(s, ("label",)) and s.get("args")]
            if len(labs) < 2:
                continue
            for i, E in labs:
                later = [F for j, F in labs if j > i and F != E]
                if not later or i == 0:
                    continue
                ename = E.split(".")[0]
                referenced = any(_self_call(x) and x["method"] != "label" and any(_mentions(a, ename) for a in x.get("args", [])) for s in st[:i] for x in walk(s))
                if not referenced:
                    continue
                n += 1
                key = "T-ALT-JUMP:%s:%s" % (fn["name"], E)
                prev = st[i - 1]
                ok = False
                if _self_call(prev, ("asm",)) and len(prev.get("args", [])) >= 2 and prev["args"][0].get("k") == "path" and prev["args"][0]["segs"][-1] == "JMP":
                    tgt = expr_text(prev["args"][1]).replace(" ", "")
                    ok = any(re.search(r"\b%s\b" % re.escape(F.split(".")[0]), tgt) for F in later)
                elif _function_exit(prev):
                    ok = True
                res.inst(key, True, {"function": fn["name"], "second_alternative_at": E, "preceded_by": expr_text(prev)[:70]})
                if not ok:
                    res.fail(key, facts.where(fn, prev), "%s: `label(%s)` opens the second alternative and the statement before it is `%s`, not the unconditional jump to %s: the first alternative can run into the second" % (fn["name"], E, expr_text(prev)[:70], " / ".join(later)))
    if n == 0:
        raise AnchorMissing("no two-alternative layout found in the generator")


@rule("T-WIDE-SIBLINGS", floor=2,
      text="where generate_expr decides whether a destination needs the second (high byte) pass, it does so in a `match` on the destination with one arm "
           "for a cell at a fixed offset (`Absolute`) and one for a cell indexed by a register (`AbsoluteX | AbsoluteY`).  `t[1]` and `t[X]` are "
           "elements of the same array: every variable type the indexed arm calls 16 bits wide (`v.var_type == VariableType::T`) is one the "
           "fixed-offset arm calls 16 bits wide too (the same test, or `!eight_bits` alone, which stands for all of them).  `ptrs[1] += 300` "
           "otherwise adds to the low byte only while `ptrs[X] += 300` and `ptrs[1] = ptrs[1] + 300` carry")
def t_wide_siblings(facts, res, tier):
    fn = facts.fn("generate_expr", genmodel.GEN_QUAL)
    par = _parents(fn["body"])
    n = 0
    seen = set()
    for c in walk(fn["body"]):
        if not (_self_call(c, ("generate_assign",)) and c.get("args") and c["args"][-1].get("k") == "lit" and c["args"][-1].get("v") is True):
            continue
        q = c
        m = None
        while q is not None:
            pq, kq, iq = par.get(id(q), (None, None, None))
            if pq is not None and pq.get("k") == "match" and kq == "arms":
                pats = [pat_text(a["pat"]).replace(" ", "") for a in pq["arms"]]
                if any(p.startswith("ExprType::Absolute(") for p in pats) and any("ExprType::AbsoluteX(" in p for p in pats):
                    m = pq
                    break
            q = pq
        if m is None or id(m) in seen:
            continue
        seen.add(id(m))

        def types_of(arm):
            """the variable types under which the arm runs its second pass; 'ALL' when the width flag alone decides"""
            conds = [x["cond"] for x in walk(arm["body"]) if x.get("k") == "if" and any(_self_call(y, ("generate_assign",)) for y in walk(x["then"]))]
            if not conds:
                return None
            t = expr_text(conds[0]).replace(" ", "")
            if re.fullmatch(r"\(?!eight_bits\)?", t):
                return "ALL"
            return set(re.findall(r"var_type==VariableType::(\w+)", t))

        fixed = next(a for a in m["arms"] if pat_text(a["pat"]).replace(" ", "").startswith("ExprType::Absolute("))
        idxd = next(a for a in m["arms"] if "ExprType::AbsoluteX(" in pat_text(a["pat"]).replace(" ", ""))
        tf, ti = types_of(fixed), types_of(idxd)
        # name the site by the operator arm of generate_expr it belongs to
        q = m
        site = "?"
        while q is not None:
            pq, kq, iq = par.get(id(q), (None, None, None))
            if pq is not None and pq.get("k") == "match" and kq == "arms" and "Operation::" in pat_text(q["pat"]):
                site = pat_text(q["pat"]).replace(" ", "")[:40]
                break
            q = pq
        n += 1
        key = "T-WIDE-SIBLINGS:%s" % site
        res.inst(key, True, {"arm": site, "fixed_offset_types": sorted(tf) if isinstance(tf, set) else tf, "indexed_types": sorted(ti) if isinstance(ti, set) else ti})
        if tf is None or ti is None:
            res.fail(key, facts.where(fn, m), "generate_expr, arm %s: the second pass of one of the two destination arms has no type test the rule can read" % site)
        elif tf != "ALL" and ti == "ALL":
            res.fail(key, facts.where(fn, fixed["body"]), "generate_expr, arm %s: the indexed destination takes the second pass for every 16-bit type, the fixed-offset one only for %s" % (site, sorted(tf)))
        elif tf != "ALL" and not ti <= tf:
            res.fail(key, facts.where(fn, fixed["body"]), "generate_expr, arm %s: an element reached with a register subscript is 16 bits wide for %s, the same element reached with a constant subscript is not (%s): its high byte is never written" % (site, sorted(ti - tf), sorted(tf)))
    if n == 0:
        raise AnchorMissing("generate_expr: no destination match with a fixed-offset and an indexed arm around a second pass")


def _mn_of(ev):
    a = ev.get("args") or []
    return getattr(a[0], "variant", None) if a else None


@rule("T-SHIFT-HIGH", floor=20,
      text="generate_shift is also called in the high byte pass of a 16-bit evaluation (high_byte = true).  The shift instructions it emits (ASL, LSR, "
           "ROR on the accumulator) work on the low byte it has just loaded; only the special cases that return before them (a shift by 8 hands "
           "over the other byte, or zero) know what the high byte of the result is.  On every path of generate_shift that returns normally after "
           "emitting a shift instruction, high_byte is false: `s = c << 2` otherwise stores `c << 2` in both bytes of s")
def t_shift_high(facts, res, tier):
    from walker import Sym
    fn = facts.fn("generate_shift", genmodel.GEN_QUAL)
    n = bad = 0
    where = None
    for kind, value, st in genmodel.fn_paths(facts, fn):
        if genmodel.is_error_exit(value):
            continue
        sh = [e for e in st.events if e["kind"] == "sasm" and _mn_of(e) in ("ASL", "LSR", "ROR", "ROL")]
        if not sh:
            continue
        n += 1
        hb = genmodel.domain_of(st, Sym("high_byte", "bool"), facts)
        if hb is None or True in hb:
            bad += 1
            where = where or sh[0]["node"]
    res.inst("T-SHIFT-HIGH:generate_shift", True, {"normal_paths_that_shift": n, "with_high_byte_possible": bad})
    for i in range(min(n, 40)):
        res.inst("T-SHIFT-HIGH:generate_shift:path#%d" % i, True, {})
    if n == 0:
        raise AnchorMissing("generate_shift: no normal path emits a shift instruction")
    if bad:
        res.fail("T-SHIFT-HIGH:generate_shift", facts.where(fn, where), "%d of %d normal paths of generate_shift emit ASL/LSR/ROR while high_byte may be true: in the high byte pass the low byte is shifted again and stored as the high byte of the result" % (bad, n))


@rule("T-CARRY-LOWPASS", floor=10,
      text="the high byte pass of an addition or subtraction emits ADC / SBC without CLC / SEC: it takes the carry of the low byte pass.  Every path "
           "of generate_arithm for Add / Sub with high_byte = false that returns normally therefore leaves a defined carry: it emits CLC (SEC) - "
           "whether or not the ADC that follows is elided.  The path that folds two constants emits nothing; it is sound when the high byte "
           "pass folds too, and not when the low byte of an operand was a constant only in this pass (`c << 8` is Immediate(0) in the low byte pass): "
           "`s = 0x1000 + (c << 8)` then adds whatever carry the previous statement left")
def t_carry_lowpass(facts, res, tier):
    from walker import Sym
    fn = facts.fn("generate_arithm", genmodel.GEN_QUAL)
    n = 0
    groups = {}
    for kind, value, st in genmodel.fn_paths(facts, fn):
        if genmodel.is_error_exit(value):
            continue
        hb = genmodel.domain_of(st, Sym("high_byte", "bool"), facts)
        if hb is not None and False not in hb:
            continue
        ops = genmodel.domain_of(st, Sym("op", "Operation"), facts)
        ops = {o for o in (ops or {"Add", "Sub"}) if o in ("Add", "Sub")}
        if not ops:
            continue
        n += 1
        sets = [e for e in st.events if e["kind"] == "sasm" and _mn_of(e) in ("CLC", "SEC")]
        emits = [e for e in st.events if e["kind"] in ("sasm", "asm")]
        shape = "carry-set" if sets else ("nothing-emitted" if not emits else "emits-without-setting-carry")
        for o in ops:
            groups.setdefault((o, shape), []).append(st)
    if n == 0:
        raise AnchorMissing("generate_arithm: no normal low-byte path for Add/Sub")
    for (o, shape), sts in sorted(groups.items()):
        key = "T-CARRY-LOWPASS:generate_arithm:%s:%s" % (o, shape)
        res.inst(key, True, {"operation": o, "paths": len(sts), "shape": shape})
        for i in range(min(len(sts), 8)):
            res.inst(key + "#%d" % i, True, {})
        if shape != "carry-set":
            res.fail(key, facts.where(fn, fn["body"]), "generate_arithm returns normally from the low byte pass of %s on %d path(s) that %s: the ADC/SBC of the high byte pass takes a carry nobody defined" % (
                o, len(sts), "emit nothing (both operands constant in this pass)" if shape == "nothing-emitted" else "emit code without CLC/SEC"))


@rule("T-LITERAL-SIZE", floor=3,
      text="a variable the compiler makes for a string literal records the bytes (`def: VariableDefinition::Array(bytes)`) and their number (`size`).  "
           "Wherever compile.rs builds such a Variable with a `size` that is the `.len()` of a vector, that vector is the one given as the definition - "
           "not another vector in scope (the table being filled, whose length is the index of the literal in it)")
def t_literal_size(facts, res, tier):
    from scopes import scoped
    n = 0
    for fn in facts.fns:
        if not fn["file"].endswith("/compile.rs") or fn.get("test"):
            continue
        for node, env, doms in scoped(fn):
            if not (node.get("k") == "struct" and (node.get("segs") or [""])[-1] == "Variable"):
                continue
            flds = {f["name"]: f.get("e") for f in node.get("fields", [])}
            d, sz = flds.get("def"), flds.get("size")
            if d is None or d.get("k") != "call" or expr_text(d["func"]).replace(" ", "") != "VariableDefinition::Array" or not d["args"]:
                continue
            vec = expr_text(d["args"][0]).replace(" ", "")
            # the size: a local bound to `<x>.len()`, or that call itself
            e = sz if sz is not None else {"k": "path", "segs": ["size"]}
            if e.get("k") == "path" and len(e["segs"]) == 1:
                b = env.get(e["segs"][0])
                e = b.init if b is not None and b.init is not None else e
            if not (isinstance(e, dict) and e.get("k") == "mcall" and e["method"] == "len"):
                continue
            n += 1
            key = "T-LITERAL-SIZE:%s:%s" % (fn["name"], vec)
            src = expr_text(e["recv"]).replace(" ", "")
            res.inst(key, True, {"function": fn["name"], "definition": vec, "size_is_len_of": src})
            if src != vec:
                res.fail(key, facts.where(fn, node), "%s makes a variable whose bytes are `%s` and whose size is `%s.len()`: the size recorded for the literal is the length of another vector" % (fn["name"], vec, src))
    if n == 0:
        raise AnchorMissing("compile.rs: no Variable literal with an Array definition and a size taken from a len()")


@rule("T-SIZE-SUM", floor=3,
      text="the byte size of an asm statement is whatever number the program wrote after the text (up to 2^31-1).  Wherever the assembler layer adds "
           "the size of an Inline line (the second component of AsmLine::Inline, bound in a pattern) to a running count, the addition cannot overflow: "
           "it is `count = count.saturating_add(size)` (or checked), and every other update of the same count is of that kind too - once the count "
           "has saturated, a plain `+= nb_bytes` overflows in its turn.  Three asm statements of declared size 2^31-1 in a loop otherwise panic in "
           "check_branches (debug) or give a wrapped distance under which a branch that is too far is left alone (release)")
def t_size_sum(facts, res, tier):
    from scopes import scoped
    n = 0
    for fn in facts.fns:
        if not fn["file"].endswith("assemble.rs") or fn.get("test"):
            continue
        counts = {}
        plain = []
        for node, env, doms in scoped(fn):
            k = node.get("k")
            sizes = {b.name for b in env.values() if b.src == "pat" and (b.ctor or [""])[-1] == "Inline" and b.idx == 1}
            if k == "assignop" and node.get("op") in ("+", "-", "*"):
                tgt = expr_text(node["l"]).replace(" ", "")
                plain.append((tgt, node))
                if any(_mentions(node["r"], s) for s in sizes):
                    n += 1
                    key = "T-SIZE-SUM:%s:%s" % (fn["name"], tgt)
                    res.inst(key, True, {"function": fn["name"], "count": tgt})
                    res.fail(key, facts.where(fn, node), "%s adds the declared size of an asm statement to `%s` with `%s=`: the sum of a few such sizes overflows u32" % (fn["name"], tgt, node["op"]))
            elif k == "binary" and node["op"] in ("+", "*") and any(_mentions(node, s) for s in sizes):
                n += 1
                key = "T-SIZE-SUM:%s:expr" % fn["name"]
                res.inst(key, True, {"function": fn["name"]})
                res.fail(key, facts.where(fn, node), "%s computes `%s` with the declared size of an asm statement: it can overflow" % (fn["name"], expr_text(node)[:60]))
            elif k == "assign" and node["r"].get("k") == "mcall" and node["r"]["method"] in ("saturating_add", "checked_add", "wrapping_add") and any(_mentions(a, s) for a in node["r"]["args"] for s in sizes):
                n += 1
                tgt = expr_text(node["l"]).replace(" ", "")
                key = "T-SIZE-SUM:%s:%s" % (fn["name"], tgt)
                res.inst(key, True, {"function": fn["name"], "count": tgt, "how": node["r"]["method"]})
                counts[tgt] = node
                if node["r"]["method"] == "wrapping_add":
                    res.fail(key, facts.where(fn, node), "%s lets `%s` wrap: a distance that wrapped is small again" % (fn["name"], tgt))
        for tgt, node in plain:
            if tgt in counts:
                res.fail("T-SIZE-SUM:%s:%s" % (fn["name"], tgt), facts.where(fn, node), "%s: `%s` saturates when the size of an asm statement is added, and is then updated with a plain `%s=`: that addition overflows once the count has saturated" % (fn["name"], tgt, node["op"]))
    if n == 0:
        raise AnchorMissing("assemble.rs: no sum involving the size of an Inline line")


@rule("T-CLASS-KEPT", floor=8,
      text="the memory class of a variable (`memory`) is what decides whether its reads and writes use separate ports.  In the declaration code of "
           "compile.rs it is assigned either where a class keyword of the declaration is read (an arm `Rule::<keyword>` of the dispatch on the "
           "declaration's parts) or as a function of its current value: under a test of `memory` (`memory == ..`, an arm of `match memory`), or "
           "with a right-hand side that is itself `match memory {..}`.  An assignment that looks at the type or the address only replaces the "
           "class the declaration gave: `superchip char *const buf = 0x1000` becomes plain RAM and is read through its write port")
def t_class_kept(facts, res, tier):
    from scopes import scoped
    n = 0
    for fn in facts.fns:
        if not fn["file"].endswith("/compile.rs") or fn.get("test"):
            continue
        for node, env, doms in scoped(fn):
            if not (node.get("k") == "assign" and expr_text(node["l"]).replace(" ", "") == "memory"):
                continue
            n += 1
            rhs = expr_text(node["r"]).replace(" ", "")
            conds = [expr_text(d[1]).replace(" ", "") for d in doms if d[0] == "cond" and d[2]]
            arms = [(expr_text(d[1]).replace(" ", ""), pat_text(d[2]).replace(" ", "")) for d in doms if d[0] == "arm"]
            how = None
            if rhs.startswith("matchmemory{"):
                how = "function of the current class"
                # .. but not one that sends every remaining class (the split-port ones among them) to one RAM class
                for a in (node["r"].get("arms") or []):
                    pt = pat_text(a["pat"]).replace(" ", "")
                    bt = expr_text(a["body"]).replace(" ", "")
                    if (pt == "_" or re.fullmatch(r"\w+", pt)) and re.match(r"VariableMemory::(Ramchip|Ramplus|Zeropage|MemoryOnChip|Superchip)\b", bt):
                        how = None
                        catch_all = bt
            elif any(re.search(r"\bmemory(==|!=)|matches!\(memory", c) for c in conds) or any(sc.lstrip("&") == "memory" for sc, pt in arms):
                how = "under a test of the current class"
            elif arms and arms[-1][0].endswith(".as_rule()") and re.fullmatch(r"Rule::\w+", arms[-1][1]) and arms[-1][1] != "Rule::var_def" and rhs.startswith("VariableMemory::"):
                # the innermost arm is the keyword itself, and nothing but the keyword decides (no condition inside the arm)
                inner_conds = [d for d in doms if d[0] == "cond"]
                last_arm_pos = max(i for i, d in enumerate(doms) if d[0] == "arm")
                if not any(i > last_arm_pos for i, d in enumerate(doms) if d[0] == "cond"):
                    how = "keyword %s" % arms[-1][1]
            key = "T-CLASS-KEPT:%s:%s" % (fn["name"], rhs[:40])
            res.inst(key, True, {"function": fn["name"], "assigns": rhs[:50], "admitted_as": how})
            if how is None and rhs.startswith("matchmemory{"):
                res.fail(key, facts.where(fn, node), "%s assigns `memory = match memory { .. _ => %s }`: the catch-all sends every class it does not name - `superchip` and the on-chip RAM of 3E among them - to one ordinary RAM class, and their reads go to the write port" % (fn["name"], catch_all))
            elif how is None:
                res.fail(key, facts.where(fn, node), "%s assigns `memory = %s` under `%s` without looking at the class the declaration gave: a `superchip` / `bankN` / `display` variable silently changes class there" % (fn["name"], rhs[:40], " && ".join(conds[-3:]) or "no condition"))
    if n == 0:
        raise AnchorMissing("compile.rs: no assignment to `memory`")


@rule("T-UNARY-CONST", floor=2,
      text="generate_neg and generate_bnot fold a literal operand themselves (`Expr::Integer(i) => Immediate(-i)` / `Immediate(!i)`) and hand any "
           "other operand to generate_arithm together with a constant (`0 - e`, `e ^ 0xff`).  generate_arithm folds two constants at full width, so "
           "for an operand that turns out to be constant (`~(1+2)`, `~K`) the second route must give what the first gives: either the operation "
           "and constant handed over are the unary operator at full width (`0 - v`; `v ^ -1`), or the constant result is intercepted first "
           "(`if let ExprType::Immediate(i) = operand { return Ok(Immediate(<the literal arm's expression>)) }`).  `x = ~(1+2)` into a short "
           "otherwise stores 0x00FC where `x = ~3` stores 0xFFFC")
def t_unary_const(facts, res, tier):
    n = 0
    for name, kind in (("generate_neg", "neg"), ("generate_bnot", "not")):
        fn = facts.fn(name, genmodel.GEN_QUAL)
        m = next((x for x in walk(fn["body"]) if x.get("k") == "match" and any(pat_text(a["pat"]).replace(" ", "").startswith("Expr::Integer(") for a in x["arms"])), None)
        if m is None:
            raise AnchorMissing("%s: no Expr::Integer arm" % name)
        lit = next(a for a in m["arms"] if pat_text(a["pat"]).replace(" ", "").startswith("Expr::Integer("))
        lit_var = scopes_pat_names(lit["pat"])[0]
        lit_txt = expr_text(lit["body"]).replace(" ", "")
        norm = lambda t, v: re.sub(r"\(?\*?\b%s\b\)?" % re.escape(v), "V", t)
        lit_core = re.search(r"!V|V\.checked_neg\(\)|-V", norm(lit_txt, lit_var))
        gen = next(a for a in m["arms"] if a is not lit)
        consts = {}
        for x in walk(gen["body"]):
            if x.get("k") == "let" and x.get("pat", {}).get("k") == "ident" and x.get("init") is not None:
                t = expr_text(x["init"]).replace(" ", "")
                mm = re.fullmatch(r"ExprType::Immediate\((-?\w+)\)", t)
                if mm:
                    try:
                        consts[x["pat"]["name"]] = int(mm.group(1), 0)
                    except ValueError:
                        pass
        calls = [x for x in walk(gen["body"]) if _self_call(x, ("generate_arithm",)) and len(x.get("args", [])) >= 3]
        if not calls:
            raise AnchorMissing("%s: no generate_arithm call in the general arm" % name)
        for c in calls:
            n += 1
            a0 = expr_text(c["args"][0]).replace(" ", "").lstrip("&")
            op = expr_text(c["args"][1]).replace(" ", "").lstrip("&")
            a2 = expr_text(c["args"][2]).replace(" ", "").lstrip("&")
            full = False
            if kind == "neg":
                full = op.startswith("Operation::Sub(") and consts.get(a0) == 0
                operand = a2
            else:
                cst, operand = (consts.get(a2), a0) if a2 in consts else (consts.get(a0), a2)
                full = op.startswith("Operation::Xor(") and cst == -1
            intercepted = False
            for x in walk(gen["body"]):
                if x.get("k") == "if" and x["cond"].get("k") == "letcond" and pat_text(x["cond"]["pat"]).replace(" ", "").startswith("ExprType::Immediate(") \
                        and expr_text(x["cond"]["e"]).replace(" ", "").lstrip("&") == operand:
                    v = scopes_pat_names(x["cond"]["pat"])
                    rets = [r for r in walk(x["then"]) if r.get("k") == "return"]
                    if v and rets:
                        rt = norm(expr_text(rets[0].get("e") or {}).replace(" ", ""), v[0])
                        if lit_core and lit_core.group(0) in rt and "ExprType::Immediate(" in rt:
                            intercepted = True
            key = "T-UNARY-CONST:%s" % name
            res.inst(key, True, {"function": name, "hands_over": "%s %s %s" % (a0, op, a2), "full_width_by_itself": full, "constant_operand_intercepted": intercepted})
            if not (full or intercepted):
                res.fail(key, facts.where(fn, c), "%s folds a literal as `%s` but sends any other constant operand through generate_arithm(%s, %s, %s), which folds to another value for operands wider than a byte, and does not intercept a constant operand first" % (name, lit_txt[:40], a0, op, a2))
    if n == 0:
        raise AnchorMissing("no unary generator found")


@rule("T-POS-SUBSTMT", floor=3,
      text="when a generator function handles a sub-statement it received itself instead of handing it to generate_statement (the arms that matched "
           "`<stmt>.statement` against a kind: generate_if's one-branch form of `if (c) break;`), the errors it raises in its place are located at "
           "that statement (`<stmt>.pos`), not at the enclosing construct (`pos`): `if (x)` / newline / `break;` outside a loop is otherwise reported "
           "on the line of the if")
def t_pos_substmt(facts, res, tier):
    gen = {f["name"]: f for f in genmodel.gen_fns(facts)}
    n = 0
    for name, fn in sorted(gen.items()):
        ps = [p["name"] for p in fn.get("params", []) if "StatementLoc" in p.get("ty", "") and "Vec" not in p.get("ty", "")]
        if not ps or name == "generate_statement":
            continue
        for m in walk(fn["body"]):
            if m.get("k") != "match":
                continue
            sc = expr_text(m["e"]).replace(" ", "").lstrip("&")
            P = next((p for p in ps if sc == p + ".statement"), None)
            if P is None:
                continue
            for a in m["arms"]:
                pt = pat_text(a["pat"]).replace(" ", "")
                if not pt.startswith("Statement::"):
                    continue
                if any(_self_call(x, ("generate_statement",)) and any(_mentions(y, P) for y in x.get("args", [])) for x in walk(a["body"])):
                    continue
                errs = [x for x in walk(a["body"]) if x.get("k") == "mcall" and x["method"] in ("syntax_error", "compiler_error") and len(x.get("args", [])) >= 2]
                for x in errs:
                    n += 1
                    key = "T-POS-SUBSTMT:%s:%s" % (name, pt[:30])
                    at = expr_text(x["args"][1]).replace(" ", "")
                    res.inst(key, True, {"function": name, "arm": pt[:30], "error_at": at})
                    if at != P + ".pos":
                        res.fail(key, facts.where(fn, x), "%s handles `%s` in place of generate_statement (arm %s) and reports its error `%s` at `%s`, not at `%s.pos`" % (name, P, pt[:30], expr_text(x["args"][0])[:40], at, P))
    if n == 0:
        raise AnchorMissing("no generator arm handling a sub-statement in place with an error of its own")


INPUT_IO = {"read_line", "read_until", "read_to_string", "read_to_end", "read", "lines"}


@rule("T-IO-LOCATED", floor=3,
      text="a failure to read the program - the source itself, an included file that is a directory, not valid UTF-8, not readable - is a defect of "
           "the program at a known place.  In the preprocessor (cpp.rs) no `?` is applied directly to the result of an input operation (read_line, "
           "File::open, ..): the io::Error is first turned into a located error (`.map_err(..)` building an Error::Syntax with filename, line and "
           "included_in).  `?` alone converts it with From<io::Error> into Error::Io, which has no file, no line and no including file.  (Writes to "
           "the output are not errors of the source and are not judged.)")
def t_io_located(facts, res, tier):
    n = 0
    for fn in facts.fns:
        if not fn["file"].endswith("/cpp.rs") or fn.get("test"):
            continue
        for x in walk(fn["body"]):
            if x.get("k") != "try":
                continue
            e = x["e"]
            chain = []
            while isinstance(e, dict) and e.get("k") == "mcall":
                chain.append(e)
                e = e["recv"]
            base_is_open = isinstance(e, dict) and e.get("k") == "call" and expr_text(e["func"]).replace(" ", "").endswith("File::open")
            reads = [c for c in chain if c["method"] in INPUT_IO]
            if not (reads or base_is_open):
                continue
            n += 1
            what = "File::open" if base_is_open else reads[-1]["method"]
            key = "T-IO-LOCATED:%s:%s" % (fn["name"], what)
            mapped = [c for c in chain if c["method"] == "map_err"]
            located = False
            for c in mapped:
                t = expr_text(c["args"][0]).replace(" ", "") if c["args"] else ""
                # the closure builds the located error itself, or calls a local closure that does
                names = [y["segs"][0] for y in walk(c["args"][0]) if y.get("k") == "path" and len(y["segs"]) == 1] if c["args"] else []
                bodies = [t]
                for l in walk(fn["body"]):
                    if l.get("k") == "let" and l.get("pat", {}).get("k") == "ident" and l["pat"]["name"] in names and l.get("init", {}).get("k") == "closure":
                        bodies.append(expr_text(l["init"]).replace(" ", ""))
                if any(("Error::Syntax{" in b or "Error::Compiler{" in b) for b in bodies) or any(_struct_has(l, ("filename", "line", "included_in")) for l in ([c["args"][0]] if c["args"] else []) + [l2.get("init") for l2 in walk(fn["body"]) if l2.get("k") == "let" and l2.get("pat", {}).get("k") == "ident" and l2["pat"]["name"] in names and l2.get("init")]):
                    located = True
            res.inst(key, True, {"function": fn["name"], "operation": what, "located": located})
            if not located:
                res.fail(key, facts.where(fn, x), "%s applies `?` to the result of %s without turning the io::Error into a located error: a source that cannot be read is reported with no file, line or including file" % (fn["name"], what))
    if n == 0:
        raise AnchorMissing("cpp.rs: no input operation under `?`")


def _struct_has(node, fields):
    for y in walk(node):
        if y.get("k") == "struct" and (y.get("segs") or [""])[0] == "Error":
            names = {f.get("name") for f in y.get("fields", [])}
            if all(f in names for f in fields):
                return True
    return False


@rule("T-CPP-WORD-SPLIT", floor=5,
      text="process() recognises a directive by the first word of the line, cut at any white space (`substr.split(char::is_whitespace).next()`).  Every "
           "place that then separates that word from its operand (`<line>.splitn(2, SEP)`) cuts at the same class of characters: with a narrower "
           "separator (a blank only) `#define<TAB>N 3` is recognised as a #define whose operand is missing, `#if<TAB>N` as an unknown directive")
def t_cpp_word_split(facts, res, tier):
    fn = facts.fn("process", "")
    word = None
    for x in walk(fn["body"]):
        if x.get("k") == "let" and x.get("pat", {}).get("k") == "ident" and x["pat"]["name"] == "directive" and x.get("init") is not None:
            for y in walk(x["init"]):
                if y.get("k") == "mcall" and y["method"] in ("split", "splitn") and y["args"]:
                    word = expr_text(y["args"][-1]).replace(" ", "")
                elif y.get("k") == "mcall" and y["method"] == "split_whitespace":
                    word = "char::is_whitespace"
    if word is None:
        raise AnchorMissing("process(): the binding of `directive` (first word of the line) not found")
    n = 0
    for x in walk(fn["body"]):
        if not (x.get("k") == "mcall" and ((x["method"] == "splitn" and len(x["args"]) == 2) or (x["method"] in ("split_once", "rsplit_once") and len(x["args"]) == 1))):
            continue
        r = x["recv"]
        root = r
        while isinstance(root, dict) and root.get("k") in ("mcall", "try", "paren"):
            root = root.get("recv") if root.get("k") == "mcall" else root.get("e")
        if not (isinstance(root, dict) and root.get("k") == "path" and root["segs"] == ["substr"]):
            continue
        n += 1
        sep = expr_text(x["args"][-1]).replace(" ", "")
        key = "T-CPP-WORD-SPLIT:process:%d" % n
        res.inst(key, True, {"where": facts.where(fn, x), "separator": sep, "word_separator": word})
        if sep != word:
            res.fail("T-CPP-WORD-SPLIT:process:separator", facts.where(fn, x), "process() finds the directive word with `%s` and cuts its operand off with `%s`: a line whose name is followed by another white-space character is recognised and then found to have no operand (or no known name)" % (word, sep))
    if n == 0:
        raise AnchorMissing("process(): no splitn(2, ..) of a directive line")


CPP_STRUCTURAL = {"#if", "#elif", "#else", "#endif", "#ifdef", "#ifndef"}


@rule("T-CPP-SKIPPED-SILENT", floor=7,
      text="a line of a region that is not selected has no effect.  In the dispatch of process() on the directive name, the arms of the directives "
           "that do not belong to the conditional structure itself (#include, #error, and the catch-all for an unknown name) raise their errors "
           "only where `state == State::Active` is known: `#if 0` / `#pragma once` / `#endif` compiles")
def t_cpp_skipped_silent(facts, res, tier):
    from scopes import scoped
    fn = facts.fn("process", "")
    info = {}
    for node, env, doms in scoped(fn):
        info[id(node)] = doms
    n = 0
    for m in walk(fn["body"]):
        if m.get("k") != "match" or expr_text(m["e"]).replace(" ", "") != "name":
            continue
        lits = [pat_text(a["pat"]).replace(" ", "") for a in m["arms"]]
        if '"#include"' not in lits:
            continue
        for a in m["arms"]:
            pt = pat_text(a["pat"]).replace(" ", "")
            if pt.strip('"') in CPP_STRUCTURAL:
                continue
            errs = []
            for x in walk(a["body"]):
                if x.get("k") == "return" and "Err(" in expr_text(x.get("e") or {}).replace(" ", "")[:6]:
                    errs.append(x)
                elif x.get("k") == "try" and x["e"].get("k") == "mcall" and x["e"]["method"] in ("ok_or_else", "ok_or", "map_err"):
                    errs.append(x)
            for x in errs:
                n += 1
                key = "T-CPP-SKIPPED-SILENT:%s" % pt.strip('"')
                doms = info.get(id(x), [])
                active = any(d[0] == "cond" and d[2] and expr_text(d[1]).replace(" ", "").strip("()") == "state==State::Active" for d in doms)
                res.inst(key, True, {"directive": pt, "where": facts.where(fn, x), "under_active": active})
                if not active:
                    res.fail(key, facts.where(fn, x), "process() raises an error in the arm %s of the directive dispatch without knowing that the region is selected: a line of a skipped region stops the compilation" % pt)
    if n == 0:
        raise AnchorMissing("process(): the dispatch on the directive name was not found")


@rule("T-ADDR-FOLD", floor=2,
      text="`(t >> 8) + 2` is folded by generate_expr into the high byte of the address `t + 512` (an operand `Absolute(t, false, k * 256)` loaded in "
           "high-byte mode).  That is arithmetic on an address: it holds for a name that stands for its address (a constant array or pointer, "
           "`var_const`) and not for a pointer variable, whose value lives in memory - there `(p >> 8) + 1` must load `p+1` and add.  Every operand "
           "built with an offset scaled by 256 lies under a test that the variable is `var_const`; the commuted spelling `1 + (p >> 8)` never takes "
           "the fold")
def t_addr_fold(facts, res, tier):
    from scopes import scoped
    n = 0
    for fn in genmodel.gen_fns(facts):
        for node, env, doms in scoped(fn):
            if not (node.get("k") == "call" and expr_text(node["func"]).replace(" ", "") == "ExprType::Absolute" and len(node["args"]) == 3):
                continue
            off = expr_text(node["args"][2]).replace(" ", "")
            if not re.search(r"wrapping_mul\(256\)|\*256\b|<<8", off):
                continue
            n += 1
            key = "T-ADDR-FOLD:%s:%s" % (fn["name"], off[:40])
            conds = [expr_text(d[1]).replace(" ", "") for d in doms if d[0] == "cond" and d[2]]
            ok = any(re.search(r"(?<![!\w])\w*\.?var_const\b", c) and "!v.var_const" not in c and "var_const==false" not in c for c in conds)
            res.inst(key, True, {"function": fn["name"], "offset": off[:50], "under_var_const": ok})
            if not ok:
                res.fail(key, facts.where(fn, node), "%s builds `%s` - a constant folded into the address of `%s` - without knowing that the name is an address constant (`var_const`): for a pointer variable the operand names unrelated memory" % (fn["name"], expr_text(node)[:70], expr_text(node["args"][0])[:20]))
    if n == 0:
        raise AnchorMissing("no operand with an offset scaled by 256 found")


CMP6 = ["Eq", "Neq", "Lt", "Lte", "Gt", "Gte"]
CMP_NEGATION = {"Eq": "Neq", "Neq": "Eq", "Gt": "Lte", "Gte": "Lt", "Lt": "Gte", "Lte": "Gt"}
CMP_SWAP = {"Eq": "Eq", "Neq": "Neq", "Gt": "Lt", "Gte": "Lte", "Lt": "Gt", "Lte": "Gte"}


@rule("T-CMP-MAPS", floor=3,
      text="a table that sends comparison operators to comparison operators (`match op { Operation::Gt => Operation::Lte, .. }`, the result possibly "
           "wrapped in Some) is, wherever it stands in the crate, one of the three transformations that have a meaning: the negation (the comparison "
           "that holds exactly when the first does not), the exchange of the operands, or the identity - and it is total over the six comparisons.  "
           "T-CMPXFORM decides what the tables of generate_condition_ex are used for; this rule judges every table, also one added in a new helper "
           "(`!(a <= b)` rewritten to `a >= b`)")
def t_cmp_maps(facts, res, tier):
    variants = set(facts.enum_variants("Operation"))
    n = 0
    for fn in facts.fns:
        if fn.get("test"):
            continue
        for m in walk(fn["body"]):
            if m.get("k") != "match":
                continue
            table = {}
            other = 0
            for arm in m["arms"]:
                pats = arm["pat"]["alts"] if arm["pat"].get("k") == "or" else [arm["pat"]]
                b = arm["body"]
                while isinstance(b, dict) and b.get("k") in ("paren", "ref"):
                    b = b["e"]
                if isinstance(b, dict) and b.get("k") == "call" and expr_text(b["func"]).replace(" ", "") in ("Some", "Ok") and len(b["args"]) == 1:
                    b = b["args"][0]
                if isinstance(b, dict) and b.get("k") == "block" and len(b.get("stmts", [])) == 1:
                    b = b["stmts"][0]
                tgt = None
                if isinstance(b, dict) and b.get("k") == "path" and b["segs"][-1] in variants and (len(b["segs"]) == 1 or b["segs"][-2] == "Operation"):
                    tgt = b["segs"][-1]
                for p in pats:
                    while p.get("k") == "ref":
                        p = p["pat"]
                    if p.get("k") == "path" and p["segs"][-1] in CMP6 and (len(p["segs"]) == 1 or p["segs"][-2] == "Operation"):
                        if tgt in CMP6:
                            table[p["segs"][-1]] = tgt
                        else:
                            other += 1
            if len(table) < 3:
                continue
            n += 1
            kind = "negation" if all(table.get(k) == v for k, v in CMP_NEGATION.items()) else "operand exchange" if all(table.get(k) == v for k, v in CMP_SWAP.items()) else \
                   "identity" if all(table.get(k) == k for k in CMP6) else None
            key = "T-CMP-MAPS:%s:%s" % (fn["name"], kind or "unrecognised")
            res.inst(key, True, {"function": fn["name"], "table": table, "is": kind})
            if kind is None:
                near = min((("negation", CMP_NEGATION), ("operand exchange", CMP_SWAP)), key=lambda t: sum(1 for k in CMP6 if table.get(k) != t[1][k]))
                diff = ["%s => %s (a %s sends it to %s)" % (k, table.get(k, "nothing"), near[0], near[1][k]) for k in CMP6 if table.get(k) != near[1][k]]
                res.fail("T-CMP-MAPS:%s" % fn["name"], facts.where(fn, m), "%s holds a table of comparison operators that is neither the negation, nor the exchange of operands, nor the identity: %s" % (fn["name"], "; ".join(diff)))
    if n == 0:
        raise AnchorMissing("no table of comparison operators found")


INTERIOR_WRITES = {"borrow_mut", "set", "replace", "take", "lock", "write", "get_or_init", "get_or_insert_with", "swap", "replace_with", "fetch_add", "store"}
TABLE_WRITES = {"insert", "remove", "push", "pop", "clear", "retain", "truncate", "extend", "swap_remove", "last_mut", "get_mut", "iter_mut", "drain", "append", "entry", "sort", "dedup"}


@rule("T-CPP-MEMO", floor=4,
      text="what a line expands to is a function of the macro tables of the Context at that moment.  The methods that only read the Context (&self: "
           "replace_all, get_macro, evaluate, ..) keep nothing from one call to the next: none writes a field through interior mutability "
           "(RefCell / Cell / Mutex).  Were one to keep a memo, every method that changes the tables (define, define_ex, undefine) would have to "
           "discard it - all of them: a memo cleared by define and define_ex but not by undefine serves, after `#undef N`, the expansion made "
           "while N was defined to every later line with the same text")
def t_cpp_memo(facts, res, tier):
    ctx = [f for f in facts.fns if f["file"].endswith("/cpp.rs") and f.get("qual") == "Context" and not f.get("test")]
    if not ctx:
        raise AnchorMissing("cpp.rs: impl Context not found")

    def self_field(e):
        """name of the field of self at the root of a method-call chain, or None"""
        while isinstance(e, dict) and e.get("k") in ("mcall", "paren", "ref", "try", "unary", "index"):
            e = e.get("recv") if e.get("k") == "mcall" else e.get("base") if e.get("k") == "index" else e.get("e")
        if isinstance(e, dict) and e.get("k") == "field" and e["base"].get("k") == "path" and e["base"]["segs"] == ["self"]:
            return e["name"]
        return None

    readers = [f for f in ctx if f.get("params") and f["params"][0].get("name") == "self" and "mut" not in f["params"][0].get("ty", "")]
    mutators = [f for f in ctx if f.get("params") and f["params"][0].get("name") == "self" and "mut" in f["params"][0].get("ty", "")]
    memo = {}
    for f in readers:
        key = "T-CPP-MEMO:reader:%s" % f["name"]
        kept = []
        for x in walk(f["body"]):
            if x.get("k") == "mcall" and x["method"] in INTERIOR_WRITES:
                fld = self_field(x["recv"])
                if fld:
                    kept.append(fld)
                    memo.setdefault(fld, []).append((f, x))
        res.inst(key, True, {"method": f["name"], "fields_written_through_interior_mutability": sorted(set(kept))})
    for fld, sites in sorted(memo.items()):
        for m in mutators:
            writes = set()
            resets = False
            for x in walk(m["body"]):
                if x.get("k") == "mcall" and x["method"] in TABLE_WRITES:
                    w = self_field(x["recv"])
                    if w == fld and x["method"] in ("clear", "take", "drain"):
                        resets = True
                    elif w and w != fld:
                        writes.add(w)
                if x.get("k") in ("assign", "assignop"):
                    w = self_field(x["l"]) or (x["l"].get("name") if x["l"].get("k") == "field" and expr_text(x["l"]["base"]) == "self" else None)
                    if w == fld:
                        resets = True
                    elif w:
                        writes.add(w)
                if x.get("k") == "mcall" and x["method"] == "clear":
                    inner = x["recv"]
                    if isinstance(inner, dict) and inner.get("k") == "mcall" and inner["method"] in ("get_mut", "borrow_mut") and self_field(inner["recv"]) == fld:
                        resets = True
            if writes and not resets:
                f0, x0 = sites[0]
                res.fail("T-CPP-MEMO:%s:%s" % (fld, m["name"]), facts.where(m, m["body"]), "%s keeps `self.%s` between calls and Context::%s changes %s without discarding it: what was expanded before the change is served after it" % (f0["name"], fld, m["name"], ", ".join("`%s`" % w for w in sorted(writes))))
    if not readers:
        raise AnchorMissing("cpp.rs: Context has no &self method")


@rule("T-SCAN-LOCAL", floor=1,
      text="process() scans a physical line piece by piece (`while !remaining.is_empty()`), in or out of a block comment.  What it decides about a piece "
           "- is this an #include, whose quotes are not a string - it decides from the piece (`s2`, `remaining`) and from the scanner's state, not "
           "from a property of the whole raw line (`buf`) computed before the loop: the start of the raw line may lie inside a block comment that "
           "ends on this line, and what follows the `*/` is ordinary code whose strings must be extracted")
def t_scan_local(facts, res, tier):
    fn = facts.fn("process", "")
    par = _parents(fn["body"])
    loops = [x for x in walk(fn["body"]) if x.get("k") == "while" and expr_text(x["cond"]).replace(" ", "") in ("!remaining.is_empty()", "(!remaining.is_empty())")]
    if not loops:
        raise AnchorMissing("process(): the scanning loop `while !remaining.is_empty()` not found")
    for lp in loops:
        # the block that holds the loop, and the locals bound before it from the raw line
        p, slot, idx = par[id(lp)]
        while p is not None and p.get("k") != "block":
            lp_top = p
            p, slot, idx = par[id(p)]
        stmts = p.get("stmts", [])
        pos = next(i for i, s in enumerate(stmts) if any(y is lp for y in walk(s)))
        tainted = {}
        for s in stmts[:pos]:
            if s.get("k") == "let" and s.get("init") is not None:
                names = scopes_pat_names(s.get("pat"))
                src = [y["segs"][0] for y in walk(s["init"]) if y.get("k") == "path" and len(y["segs"]) == 1]
                if ("buf" in src or any(t in tainted for t in src)) and names != ["remaining"]:
                    for nm in names:
                        tainted[nm] = expr_text(s["init"])[:50]
        used = []
        for x in walk(lp["body"]):
            if x.get("k") in ("if", "while"):
                c = x["cond"]
            elif x.get("k") == "match":
                c = x["e"]
            else:
                continue
            for y in walk(c):
                if y.get("k") == "path" and len(y["segs"]) == 1 and y["segs"][0] in tainted:
                    used.append((x, y["segs"][0]))
        key = "T-SCAN-LOCAL:process"
        res.inst(key, True, {"locals_bound_from_the_raw_line_before_the_loop": sorted(tainted), "read_in_a_condition_of_the_loop": sorted({u[1] for u in used})})
        for x, nm in used:
            res.fail(key, facts.where(fn, x), "inside the scanning loop a decision reads `%s`, bound before the loop from the raw line (`%s`): it describes the physical line, comment included, not the piece being scanned" % (nm, tainted[nm]))


@rule("T-STMT-WRAPPER-KEPT", floor=5,
      text="compile_statement returns the statement together with what belongs to it as a whole: its position and the label written in front of it "
           "(`L: { .. }`, `L: char x = 3;`).  Every caller keeps that StatementLoc whole - pushes it, boxes it, stores it in the node it builds.  A "
           "caller that opens it (a match or struct pattern on the result, `.statement` taken out of it) and uses the statement alone drops the "
           "label: `goto L` is still emitted as `JMP .L`, and `.L` never is")
def t_stmt_wrapper_kept(facts, res, tier):
    n = 0
    for fn in facts.fns:
        if not fn["file"].endswith("/compile.rs") or fn.get("test"):
            continue
        par = None
        for c in walk(fn["body"]):
            if not (_self_call(c, ("compile_statement",))):
                continue
            if par is None:
                par = _parents(fn["body"])
            n += 1
            key = "T-STMT-WRAPPER-KEPT:%s" % fn["name"]
            q = c
            p, slot, idx = par.get(id(q), (None, None, None))
            while p is not None and p.get("k") in ("try", "paren"):
                q = p
                p, slot, idx = par.get(id(q), (None, None, None))
            how = "kept whole"
            bad = None
            if p is not None and p.get("k") == "match" and slot == "e":
                opened = [a for a in p["arms"] if "StatementLoc{" in pat_text(a["pat"]).replace(" ", "")]
                if opened:
                    bad = "matched against `%s`" % pat_text(opened[0]["pat"])[:60]
            elif p is not None and p.get("k") == "letcond":
                bad = "opened by `if let %s`" % pat_text(p["pat"])[:60]
            elif p is not None and p.get("k") == "field" and p["name"] == "statement":
                bad = "`.statement` taken out of it"
            elif p is not None and p.get("k") == "let":
                pt = p.get("pat", {})
                if pt.get("k") == "ident":
                    nm = pt["name"]
                    uses = [expr_text(y).replace(" ", "") for y in walk(fn["body"]) if y.get("k") == "field" and y["base"].get("k") == "path" and y["base"]["segs"] == [nm]]
                    if any(u.endswith(".statement") for u in uses) and not any(u.endswith(".label") for u in uses):
                        bad = "bound to `%s`, of which only `.statement` is used" % nm
                    how = "bound to %s" % nm
                else:
                    bad = "destructured by `let %s`" % pat_text(pt)[:60]
            res.inst(key, True, {"function": fn["name"], "where": facts.where(fn, c), "result": bad or how})
            if bad:
                res.fail(key, facts.where(fn, c), "%s takes the result of compile_statement apart (%s): the label written in front of that statement is dropped while gotos to it are still emitted" % (fn["name"], bad))
    if n == 0:
        raise AnchorMissing("compile.rs: no call of compile_statement")


@rule("T-STR-SINGLE-PASS", floor=1,
      text="the text of a literal is decoded once, from left to right: the loop of compile_quoted_string_ex that consumes `\\\\` + the next character "
           "reads the characters of the function's own parameter.  A pass that rewrites the text first (a regex for `\\xHH`, a replace) and hands a "
           "copy to the loop decodes twice: it cannot know that the backslash it sees is the second half of `\\\\\\\\`, and `\"C:\\\\\\\\x41\"` loses its "
           "backslash")
def t_str_single_pass(facts, res, tier):
    from scopes import scoped
    n = 0
    for fn in facts.fns:
        if not fn["file"].endswith("/compile.rs") or fn.get("test"):
            continue
        # a decoding loop: `while let Some(c) = <it>.next()` whose body matches a further `<it>.next()` after seeing a backslash
        loops = [x for x in walk(fn["body"]) if x.get("k") == "while" and x["cond"].get("k") == "letcond" and expr_text(x["cond"]["e"]).replace(" ", "").endswith(".next()")
                 and ("'\\\\'" in expr_text(x["body"]) or '"\\\\"' in expr_text(x["body"])) and any(y.get("k") == "match" and expr_text(y["e"]).replace(" ", "").endswith(".next()") for y in walk(x["body"]))]
        if not loops:
            continue
        for lp in loops:
            it = expr_text(lp["cond"]["e"]).replace(" ", "")[:-len(".next()")]
            src = None
            where = lp
            for node, env, doms in scoped(fn):
                if node is lp["cond"]["e"]:
                    b = env.get(it)
                    if b is not None and b.init is not None:
                        e = b.init
                        where = e
                        while isinstance(e, dict) and e.get("k") == "mcall" and e["method"] in ("chars", "char_indices", "bytes", "peekable", "iter", "into_iter", "as_bytes"):
                            e = e["recv"]
                        if isinstance(e, dict) and e.get("k") == "path" and len(e["segs"]) == 1:
                            # the binding visible where the iterator was made
                            for n2, env2, d2 in scoped(fn):
                                if n2 is b.init:
                                    bb = env2.get(e["segs"][0])
                                    src = (e["segs"][0], bb.src if bb is not None else "unknown", expr_text(bb.init)[:60] if bb is not None and bb.init is not None else None)
                        else:
                            src = (expr_text(e)[:40], "expression", None)
            n += 1
            key = "T-STR-SINGLE-PASS:%s" % fn["name"]
            res.inst(key, True, {"function": fn["name"], "iterator": it, "over": list(src) if src else None})
            if src is None or src[1] != "param":
                res.fail(key, facts.where(fn, where), "%s decodes escapes from `%s`, which is %s and not the text it was given: the literal went through an earlier rewriting pass and is decoded twice" % (
                    fn["name"], src[0] if src else it, ("bound to `%s`" % src[2]) if src and src[2] else "not the parameter"))
    if n == 0:
        raise AnchorMissing("compile.rs: the escape decoding loop was not found")


@rule("T-OFFSET-SIGN", floor=4,
      text="in the arm of asm() for an operand at a fixed offset (`ExprType::Absolute(variable, .., off)`) the offset comes from a constant subscript "
           "of the program and may be negative.  Wherever that arm chooses between the operand text with the offset (`format!(\"{}+{}\", variable, o)`) "
           "and the bare name, the test is `o != 0`: with `o > 0` the bytes of `arr[-1]` are written at `arr`")
def t_offset_sign(facts, res, tier):
    fn = facts.fn("asm", genmodel.GEN_QUAL)
    n = 0
    arm = None
    for m in walk(fn["body"]):
        if m.get("k") == "match":
            for a in m["arms"]:
                if pat_text(a["pat"]).replace(" ", "").startswith("ExprType::Absolute("):
                    arm = a
                    break
        if arm is not None:
            break
    if arm is None:
        raise AnchorMissing("asm(): the arm ExprType::Absolute(..) was not found")
    # a plain `char` has no subscript: its offset is always 0 and its arm is not judged
    scalar = [a for m in walk(arm["body"]) if m.get("k") == "match" and expr_text(m["e"]).replace(" ", "").endswith(".var_type") for a in m["arms"]
              if pat_text(a["pat"]).replace(" ", "") == "VariableType::Char"]
    skip = {id(y) for a in scalar for y in walk(a["body"])}
    for x in walk(arm["body"]):
        if x.get("k") != "if" or x.get("else") is None or id(x) in skip:
            continue
        if len(x["then"].get("stmts", [])) != 1 or x["else"].get("k") != "block" or len(x["else"].get("stmts", [])) != 1:
            continue
        tt = expr_text(x["then"]).replace(" ", "")
        et = expr_text(x["else"]).replace(" ", "")
        mt = re.search(r'dasm_operand=format!\("[^"]*\{\}\+\{\}[^"]*",variable,(\w+)\)', tt)
        if not mt or "dasm_operand=" not in et or "+{}" in et.split("dasm_operand=")[1][:40]:
            continue
        o = mt.group(1)
        c = expr_text(x["cond"]).replace(" ", "").strip("()")
        n += 1
        key = "T-OFFSET-SIGN:asm:%s" % c
        res.inst(key, True, {"offset": o, "test": c, "where": facts.where(fn, x)})
        if c not in ("%s!=0" % o, "0!=%s" % o):
            res.fail(key, facts.where(fn, x), "asm() writes the offset `%s` of a fixed-offset operand only when `%s`: a negative constant subscript loses its offset and names the first element" % (o, c))
    if n == 0:
        raise AnchorMissing("asm(): no choice between `name+offset` and `name` found in the Absolute arm")


@rule("T-INCDEC-WIDE", floor=3,
      text="an element of a table of 16-bit values (`short t[]`, `char *p[]`: ShortPtr, CharPtrPtr) is reached at a fixed offset (`t[1]`), through X "
           "or through Y.  In each of the three arms of generate_plusplus that receive such an element (Absolute, AbsoluteX, AbsoluteY) a step on the "
           "high byte exists (`asm(.., true)` / `generate_assign(.., true)`) under a condition that names both types.  `t[1]++` and `t[Y]++` otherwise "
           "step the low byte only while `t[X]++` and `t[1] += 1` carry")
def t_incdec_wide(facts, res, tier):
    from scopes import scoped
    fn = facts.fn("generate_plusplus", genmodel.GEN_QUAL)
    m = next((x for x in walk(fn["body"]) if x.get("k") == "match" and expr_text(x["e"]).replace(" ", "").lstrip("*&") == "expr_type"), None)
    if m is None:
        raise AnchorMissing("generate_plusplus: the match on the operand was not found")
    info = {}
    for node, env, doms in scoped(fn):
        info[id(node)] = (env, doms)
    n = 0
    for want in ("Absolute", "AbsoluteX", "AbsoluteY"):
        arm = next((a for a in m["arms"] if pat_text(a["pat"]).replace(" ", "").startswith("ExprType::%s(" % want)), None)
        if arm is None:
            raise AnchorMissing("generate_plusplus: no arm for ExprType::%s" % want)
        n += 1
        types = set()
        steps = 0
        for x in walk(arm["body"]):
            if _self_call(x, ("asm", "generate_assign", "generate_arithm")) and x.get("args") and x["args"][-1].get("k") == "lit" and x["args"][-1].get("v") is True:
                steps += 1
                env, doms = info.get(id(x), ({}, []))
                texts = []
                for d in doms:
                    if d[0] == "cond":
                        texts.append(expr_text(d[1]))
                        for y in walk(d[1]):
                            if y.get("k") == "path" and len(y["segs"]) == 1:
                                b = env.get(y["segs"][0])
                                if b is not None and b.init is not None:
                                    texts.append(expr_text(b.init))
                for t in texts:
                    types |= set(re.findall(r"VariableType::(\w+)", t))
        key = "T-INCDEC-WIDE:generate_plusplus:%s" % want
        res.inst(key, True, {"arm": want, "high_byte_steps": steps, "types_named_by_their_conditions": sorted(types)})
        missing = {"ShortPtr", "CharPtrPtr"} - types
        if missing:
            res.fail(key, facts.where(fn, arm["body"]), "generate_plusplus, arm %s: no step on the high byte is taken for %s (%s): `t[..]++` on a table of 16-bit values steps the low byte only through this arm" % (
                want, " / ".join(sorted(missing)), "%d high byte step(s), conditions name %s" % (steps, sorted(types)) if steps else "the arm has no high byte step at all"))


@rule("T-CMP16-SIGN", floor=1,
      text="generate_condition_16bits compares a 16-bit value with zero by handing its high byte to generate_condition_ex as an accumulator value "
           "`ExprType::A(signed)`; that flag decides between the signed branches (BMI / BPL on the high byte) and the unsigned ones.  The flag is that of "
           "the operand (its variable's `signed`), not a literal: with a literal `true` an `unsigned short a >= 0x8000` is negative for `a > 0`, "
           "`a >= 0`, `a < 0`, `a <= 0`")
def t_cmp16_sign(facts, res, tier):
    fn = facts.fn("generate_condition_16bits", genmodel.GEN_QUAL)
    n = 0
    for x in walk(fn["body"]):
        if x.get("k") == "call" and expr_text(x["func"]).replace(" ", "") == "ExprType::A" and len(x["args"]) == 1:
            n += 1
            a = x["args"][0]
            key = "T-CMP16-SIGN:generate_condition_16bits:A(%s)" % expr_text(a).replace(" ", "")[:20]
            res.inst(key, True, {"signedness": expr_text(a)[:40]})
            if a.get("k") == "lit":
                res.fail(key, facts.where(fn, x), "generate_condition_16bits gives the high byte of the compared value the signedness `%s` whatever the operand is: an unsigned 16-bit value with bit 15 set is taken for negative" % expr_text(a))
    if n == 0:
        raise AnchorMissing("generate_condition_16bits: no ExprType::A(..) built")


@rule("T-GRAMMAR-REPARSE", floor=20,
      text="pest does not memoise: when the first alternative of a choice fails, everything it had parsed is parsed again by the next one.  No "
           "choice of the grammar has two alternatives that begin with the same items up to and including a reference to a rule through which the "
           "choice itself can be reached again (`statement`, `expr`): each level of nesting would then parse its inner construct twice, and n "
           "nested else-less ifs cost 2^n - 48 of them (350 bytes of source) never finish.  An optional tail (`(\"else\" ~ statement)?`) is the "
           "form that parses the common part once")
def t_grammar_reparse(facts, res, tier):
    rules = facts.grammar_rules()

    def refs(e, out):
        if isinstance(e, dict):
            if e.get("k") == "ident":
                out.add(e["v"])
            for v in e.values():
                refs(v, out)
        return out
    direct = {name: refs(r["expr"], set()) for name, r in rules.items()}
    reach = {}
    for name in rules:
        seen = set()
        stack = list(direct[name])
        while stack:
            x = stack.pop()
            if x in seen or x not in rules:
                continue
            seen.add(x)
            stack.extend(direct[x])
        reach[name] = seen

    def flat_seq(e):
        if isinstance(e, dict) and e.get("k") == "seq":
            return flat_seq(e["a"]) + flat_seq(e["b"])
        return [e]

    def alts(e):
        if isinstance(e, dict) and e.get("k") == "choice":
            return alts(e["a"]) + alts(e["b"])
        return [e]
    n = 0

    def visit(rname, e, top=True):
        nonlocal n
        if not isinstance(e, dict):
            return
        if e.get("k") == "choice" and top:
            al = [flat_seq(a) for a in alts(e)]
            n += 1
            key = "T-GRAMMAR-REPARSE:%s" % rname
            worst = None
            for i in range(len(al)):
                for j in range(i + 1, len(al)):
                    k = 0
                    while k < len(al[i]) and k < len(al[j]) and json.dumps(al[i][k], sort_keys=True) == json.dumps(al[j][k], sort_keys=True):
                        k += 1
                    common = al[i][:k]
                    rec = [x["v"] for x in common for x in [x] if isinstance(x, dict) and x.get("k") == "ident" and x["v"] in rules and rname in reach.get(x["v"], set()) | ({x["v"]} if x["v"] == rname else set())]
                    if rec and worst is None:
                        worst = (i, j, k, rec)
            res.inst(key, True, {"rule": rname, "alternatives": len(al), "reparsed_recursive_prefix": worst[3] if worst else None})
            if worst:
                res.fail(key, "src/cc6502.pest:%s" % rules[rname].get("line"), "rule `%s`: alternatives %d and %d begin with the same %d item(s), among them %s through which `%s` is reached again: when the first alternative fails the nested construct is parsed a second time, at every level of nesting" % (
                    rname, worst[0] + 1, worst[1] + 1, worst[2], " / ".join("`%s`" % r for r in worst[3]), rname))
            for a in alts(e):
                visit(rname, a, True)
            return
        for k2, v in e.items():
            if isinstance(v, dict):
                visit(rname, v, True)

    import json
    for rname, r in rules.items():
        visit(rname, r["expr"])
    if n == 0:
        raise AnchorMissing("the grammar has no choice")


TRANSFER_INVERSE = {"TAX": "TXA", "TXA": "TAX", "TAY": "TYA", "TYA": "TAY"}


@rule("T-TRANSFER-PAIRS", floor=4,
      text="optimize() deletes the second of two adjacent register transfers when it copies the value back where it has just come from: TAX/TXA, "
           "TXA/TAX, TAY/TYA, TYA/TAY.  Whether the pairs are spelled as conditions (`i1.mnemonic == TAX && i2.mnemonic == TXA`) or come from a "
           "table (`match t { TAX => Some(TXA), .. }`), every pair is one of these four: `TYA` followed by `TAX` is `X = Y`, not a transfer back, and "
           "deleting the TAX leaves X as it was")
def t_transfer_pairs(facts, res, tier):
    n = 0
    for fn in facts.fns:
        if not fn["file"].endswith("assemble.rs") or fn.get("test"):
            continue
        # (a) pair conditions
        for x in walk(fn["body"]):
            if x.get("k") != "if":
                continue
            if not any(y.get("k") == "assign" and expr_text(y["l"]).replace(" ", "") in ("remove_second", "remove_both", "remove_first") and expr_text(y["r"]).strip() == "true" for y in walk(x["then"])):
                continue
            c = expr_text(x["cond"]).replace(" ", "")
            ms = re.findall(r"(\w+)\.mnemonic==AsmMnemonic::(TAX|TXA|TAY|TYA)\b", c)
            if len(ms) == 2 and ms[0][0] != ms[1][0] and "||" not in c:
                first, second = sorted(ms, key=lambda t: t[0])
                n += 1
                key = "T-TRANSFER-PAIRS:%s:%s+%s" % (fn["name"], first[1], second[1])
                res.inst(key, True, {"pair": [first[1], second[1]]})
                if TRANSFER_INVERSE[first[1]] != second[1]:
                    res.fail(key, facts.where(fn, x), "%s deletes a transfer of the pair %s / %s, which does not bring the value back where it came from" % (fn["name"], first[1], second[1]))
        # (b) tables
        for m in walk(fn["body"]):
            if m.get("k") != "match":
                continue
            table = {}
            for arm in m["arms"]:
                pats = arm["pat"]["alts"] if arm["pat"].get("k") == "or" else [arm["pat"]]
                b = arm["body"]
                if isinstance(b, dict) and b.get("k") == "call" and expr_text(b["func"]).replace(" ", "") in ("Some", "Ok") and len(b["args"]) == 1:
                    b = b["args"][0]
                tgt = b["segs"][-1] if isinstance(b, dict) and b.get("k") == "path" and b["segs"][-1] in TRANSFER_INVERSE else None
                for p in pats:
                    if p.get("k") == "path" and p["segs"][-1] in TRANSFER_INVERSE and tgt:
                        table[p["segs"][-1]] = tgt
            if len(table) >= 2:
                n += 1
                key = "T-TRANSFER-PAIRS:%s:table" % fn["name"]
                res.inst(key, True, {"table": table})
                for k0, v0 in sorted(table.items()):
                    res.inst("%s:%s+%s" % (key, k0, v0), True, {"pair": [k0, v0]})
                bad = {k: v for k, v in table.items() if TRANSFER_INVERSE[k] != v and k != v}
                if bad:
                    res.fail(key, facts.where(fn, m), "%s holds a table of register transfers in which %s: not the transfer that brings the value back" % (fn["name"], ", ".join("%s => %s" % kv for kv in sorted(bad.items()))))
    if n == 0:
        raise AnchorMissing("assemble.rs: no pair of register transfers found")


@rule("T-DIV-ZERO-FIRST", floor=1,
      text="generate_arithm rejects a constant division by zero (`return Err(.. \"Division by zero\" ..)` under a test of the divisor against 0).  No "
           "normal return that a division can take comes before that test: a shortcut placed ahead of it (`0 / x` is 0, `x / 1` is x) answers for "
           "`0 / 0` too, and the statement compiles where the same expression in an initialiser is refused")
def t_div_zero_first(facts, res, tier):
    from scopes import scoped
    fn = facts.fn("generate_arithm", genmodel.GEN_QUAL)
    guard = None
    for x in walk(fn["body"]):
        if x.get("k") == "if" and re.search(r"==0\)?$|^\(?0==", expr_text(x["cond"]).replace(" ", "")) and "Divisionbyzero" in expr_text(x["then"]).replace(" ", ""):
            guard = x
            break
    if guard is None:
        raise AnchorMissing("generate_arithm: the division-by-zero test was not found")
    gline = int(str(guard.get("loc", "0:0")).split(":")[0])
    n = 0
    for node, env, doms in scoped(fn):
        if node.get("k") != "return":
            continue
        t = expr_text(node.get("e") or {}).replace(" ", "")
        if t.startswith("Err("):
            continue
        line = int(str(node.get("loc", "0:0")).split(":")[0])
        if line >= gline:
            continue
        # can `op` be a division here?
        may_div = True
        for d in doms:
            if d[0] == "arm" and expr_text(d[1]).replace(" ", "").lstrip("*&") == "op":
                may_div = "Operation::Div" in pat_text(d[2]).replace(" ", "") or pat_text(d[2]).strip() == "_"
            if d[0] == "arm" and d[1].get("k") == "letcond":
                pass
        n += 1
        key = "T-DIV-ZERO-FIRST:generate_arithm:%s" % ("may-divide" if may_div else "other-operation")
        res.inst(key, True, {"return": t[:50], "line": line, "division_possible": may_div})
        if may_div:
            res.fail("T-DIV-ZERO-FIRST:generate_arithm", facts.where(fn, node), "generate_arithm returns `%s` before the test of the divisor against zero, on a path a division can take: a constant `0 / 0` (or `x / 0` caught by the shortcut) is folded instead of being refused" % t[:60])
    res.inst("T-DIV-ZERO-FIRST:generate_arithm:guard", True, {"line": gline, "normal_returns_before_it": n})


TMP_RELEASE_BOUNDARIES = {
    # function (and arm): why cctmp is free there whatever it held
    ("generate_statement", None): "a new statement begins: no operand of the previous one is alive",
    ("generate_return", None): "the value returned has been moved to the accumulator; nothing of the statement remains",
    ("generate_expr", "Operation::Comma"): "the left operand of a comma is discarded as a whole",
    ("generate_condition_16bits", None): "the function parked the low byte in cctmp itself (an operand ExprType::Tmp(false) of its own; verified below) and has compared it",
}


def _own_reservation(fn, cond, env):
    """`cond` is a local r with `let r = .. && !self.tmp_in_use`, and the function holds `if r { self.tmp_in_use = true; }`"""
    if not re.fullmatch(r"\w+", cond):
        return False
    b = env.get(cond)
    if b is None or b.init is None or "!self.tmp_in_use" not in expr_text(b.init).replace(" ", ""):
        return False
    for x in walk(fn["body"]):
        if x.get("k") == "if" and expr_text(x["cond"]).replace(" ", "").strip("()") == cond and any(
                y.get("k") == "assign" and expr_text(y["l"]).replace(" ", "") == "self.tmp_in_use" and expr_text(y["r"]).strip() == "true" for y in walk(x["then"])):
            return True
    return False


@rule("T-TMP-RELEASE", floor=15,
      text="`tmp_in_use` says that cctmp holds something alive: an operand (ExprType::Tmp) or the program's Y parked while Y serves as an index.  It "
           "is lowered only by the code that has just consumed that content - inside an arm that matched the operand as `ExprType::Tmp(..)`, or "
           "under `self.saved_y` where the parked Y is restored - or at a boundary where nothing of the statement survives (tabled, with reasons).  "
           "Lowered anywhere else (after the slow path of `++v` on split-port RAM, say) it frees cctmp while it still holds the parked Y: the next "
           "operand that needs cctmp overwrites it and `LDY cctmp` restores garbage")
def t_tmp_release(facts, res, tier):
    from scopes import scoped
    n = 0
    for fn in genmodel.gen_fns(facts):
        for node, env, doms in scoped(fn):
            if not (node.get("k") == "assign" and expr_text(node["l"]).replace(" ", "") == "self.tmp_in_use" and expr_text(node["r"]).strip() == "false"):
                continue
            n += 1
            arms = [pat_text(d[2]).replace(" ", "") for d in doms if d[0] == "arm"]
            conds = [expr_text(d[1]).replace(" ", "").strip("()") for d in doms if d[0] == "cond" and d[2]]
            how = None
            if any(a.startswith("ExprType::Tmp(") for a in arms):
                how = "the operand consumed is the temporary"
            elif "self.saved_y" in conds:
                how = "the parked Y is restored"
            elif any(_own_reservation(fn, c0, env) for c0 in conds):
                how = "releases a reservation this code made itself (raised only when the flag was down)"
            else:
                for (f0, a0), why in TMP_RELEASE_BOUNDARIES.items():
                    if fn["name"] == f0 and (a0 is None or any(a0 in a for a in arms)):
                        how = "boundary: " + why
                        if f0 == "generate_condition_16bits" and "ExprType::Tmp(false)" not in expr_text(fn["body"]).replace(" ", ""):
                            how = None
            key = "T-TMP-RELEASE:%s:%s" % (fn["name"], (arms[-1][:30] if arms else "body"))
            res.inst(key, True, {"function": fn["name"], "admitted_as": how})
            if how is None:
                res.fail(key, facts.where(fn, node), "%s lowers `tmp_in_use` where it has not consumed the temporary (arms %s, conditions %s): cctmp may still hold the program's Y, parked there by an indexed operand of the same statement" % (fn["name"], arms[-2:] or "none", conds[-2:] or "none"))
    if n == 0:
        raise AnchorMissing("no `tmp_in_use = false` found")


@rule("T-POS-NAME", floor=2,
      text="compile.rs walks the parts of a declaration in a loop (`for pair in pairs { let start = ..; match pair.as_rule() { .. } }`).  An error raised "
           "while one part is handled, whose message names something read from an earlier part (`Function {name} already defined`, raised at the "
           "body), is located where that earlier part stood - a position saved in the arm that read it - not at the part at hand (`start`): the "
           "body's `{` may be lines below the name")
def t_pos_name(facts, res, tier):
    n = 0
    for fn in facts.fns:
        if not fn["file"].endswith("/compile.rs") or fn.get("test"):
            continue
        for lp in walk(fn["body"]):
            if lp.get("k") != "for":
                continue
            body = lp["body"]
            m = next((s for s in body.get("stmts", []) if s.get("k") == "match" and expr_text(s["e"]).replace(" ", "").endswith(".as_rule()")), None)
            if m is None:
                continue
            iterpos = {s["pat"]["name"] for s in body.get("stmts", []) if s.get("k") == "let" and s.get("pat", {}).get("k") == "ident"}
            assigned = {}
            for a in m["arms"]:
                for x in walk(a["body"]):
                    if x.get("k") == "assign" and x["l"].get("k") == "path" and len(x["l"]["segs"]) == 1:
                        assigned.setdefault(x["l"]["segs"][0], set()).add(id(a))
            for a in m["arms"]:
                for x in walk(a["body"]):
                    if not (x.get("k") == "mcall" and x["method"] in ("syntax_error", "compiler_error") and len(x["args"]) >= 2):
                        continue
                    txt = expr_text(x["args"][0])
                    pos = x["args"][1]
                    elsewhere = [nm for nm, arms in assigned.items() if re.search(r"\b%s\b" % re.escape(nm), txt) and id(a) not in arms]
                    if not elsewhere:
                        continue
                    n += 1
                    key = "T-POS-NAME:%s:%s" % (fn["name"], re.sub(r"[^A-Za-z ]", "", txt)[:40].strip().replace(" ", "-"))
                    roots = {y["segs"][0] for y in walk(pos) if y.get("k") == "path" and len(y["segs"]) == 1}
                    saved = [r for r in roots if r in assigned and any(assigned[r] & assigned[nm] for nm in elsewhere)]
                    res.inst(key, True, {"function": fn["name"], "names": elsewhere, "position": expr_text(pos)[:40], "saved_with_the_name": bool(saved)})
                    if roots & iterpos and not saved:
                        res.fail(key, facts.where(fn, x), "%s reports `%s` - about `%s`, read from another part of the declaration - at `%s`, the part being handled now" % (fn["name"], txt[:50], elsewhere[0], expr_text(pos)[:30]))
    if n == 0:
        raise AnchorMissing("compile.rs: no error naming something read from an earlier part of a declaration")


@rule("T-SEQ-SCOPE", floor=3,
      text="the scope clause of T-SEQ-POINT run on its own (C14, C16, C18): the pending-list of postfix ++/-- is a stack whose depth callers "
           "record; only the ends of a full expression empty it whole, every other site purges what it raised itself (`..since(before)`).  A site "
           "that empties the whole list inside an expression leaves an enclosing call, `?:` or condition with a recorded depth larger than the "
           "list (`split_off` panics), and applies the increments of the enclosing expression early (a load() that reads `tab[X++]` after the INX)")
def t_seq_scope(facts, res, tier):
    from core import Result
    tmp = Result()
    t_seq_point(facts, tmp, tier)
    keep = lambda k: ":scope" in k
    for key, nt, sample in tmp.instances:
        if keep(key):
            res.inst(key.replace("T-SEQ-POINT", "T-SEQ-SCOPE", 1), nt, sample)
    for v in tmp.violations:
        if keep(v.key):
            res.fail(v.key.replace("T-SEQ-POINT", "T-SEQ-SCOPE", 1), v.where, v.msg, getattr(v, "detail", None))


@rule("T-FLAGS-OK-EXACT", floor=3,
      text="flags_ok answers whether the flags the generator believes in describe a given operand.  For a state that names a memory operand "
           "(Absolute / AbsoluteX / AbsoluteY) the answer is yes only for the operand with the same variable, the same width flag and the same "
           "offset: the arm binds every component of the state (no `_`, no `..`) and compares the operand with the operand rebuilt from all of "
           "them.  After `s++` on a short the flags are those of the 16-bit value (`Absolute(s, false, 0)`): accepted for the byte `s & 0xff` "
           "(`Absolute(s, true, 0)`), the `LDA s` is dropped and the branch uses the 16-bit Z")
def t_flags_ok_exact(facts, res, tier):
    fn = next((f for f in facts.fns if f["name"] == "flags_ok" and not f.get("test")), None)
    if fn is None:
        raise AnchorMissing("flags_ok not found")
    n = 0
    for m in walk(fn["body"]):
        if m.get("k") != "match":
            continue
        for a in m["arms"]:
            pt = pat_text(a["pat"]).replace(" ", "")
            mm = re.match(r"FlagsState::(Absolute\w*)\((.*)\)$", pt)
            if not mm:
                continue
            n += 1
            var = mm.group(1)
            key = "T-FLAGS-OK-EXACT:flags_ok:%s" % var
            comps = [c for c in mm.group(2).split(",") if c]
            body = expr_text(a["body"]).replace(" ", "")
            res.inst(key, True, {"state": var, "components": comps, "answer": body[:80]})
            if any(c in ("_", "..") for c in comps):
                res.fail(key, facts.where(fn, a["body"]), "flags_ok ignores a component of FlagsState::%s (`%s`): the flags of one operand are accepted for another one that differs in that component (the 16-bit value and its low byte)" % (var, pt))
                continue
            rebuilt = re.search(r"ExprType::%s\(([^()]*(\([^()]*\)[^()]*)*)\)" % var, body)
            used = all(re.search(r"\b%s\b" % re.escape(c), rebuilt.group(1) if rebuilt else "") for c in comps)
            if "==" not in body or not rebuilt or not used:
                res.fail(key, facts.where(fn, a["body"]), "flags_ok does not compare the operand with `ExprType::%s` rebuilt from every component of the state (%s): `%s`" % (var, ", ".join(comps), body[:70]))
    if n == 0:
        raise AnchorMissing("flags_ok: no arm for a memory state")


@rule("T-CONST-TRUTH", floor=4,
      text="a constant used as a truth value is true exactly when it is not zero, in every evaluator: where generate_conditions.rs decides a branch "
           "from the payload of an `ExprType::Immediate(v)`, `v` is compared with 0 by `!=` or `==` only.  `v > 0` calls -1 false: `if (-1)` takes "
           "the else branch while the constant folder and the calculator call -1 true")
def t_const_truth(facts, res, tier):
    from scopes import scoped
    n = 0
    for fn in facts.fns:
        if not fn["file"].endswith("generate_conditions.rs") or fn.get("test"):
            continue
        for node, env, doms in scoped(fn):
            if node.get("k") != "binary" or node["op"] not in ("==", "!=", ">", "<", ">=", "<="):
                continue
            sides = [node["l"], node["r"]]
            lit = [s for s in sides if s.get("k") == "lit" and s.get("ty") == "int" and s.get("v") in (0, 1)]
            if len(lit) != 1:
                continue
            other = sides[0] if sides[1] is lit[0] else sides[1]
            while isinstance(other, dict) and other.get("k") in ("unary", "paren", "ref"):
                other = other["e"]
            if not (isinstance(other, dict) and other.get("k") == "path" and len(other["segs"]) == 1):
                continue
            b = env.get(other["segs"][0])
            if b is None or b.src != "pat" or (b.ctor or [""])[-1] != "Immediate":
                continue
            n += 1
            key = "T-CONST-TRUTH:%s:%s" % (fn["name"], expr_text(node).replace(" ", ""))
            res.inst(key, True, {"function": fn["name"], "test": expr_text(node)})
            if not (node["op"] in ("==", "!=") and lit[0]["v"] == 0):
                res.fail(key, facts.where(fn, node), "%s decides on a constant with `%s`: a constant is true when it is not zero (negative ones included)" % (fn["name"], expr_text(node)))
    if n == 0:
        raise AnchorMissing("generate_conditions.rs: no test of an Immediate payload against 0")


@rule("T-LABEL-MOMENT", floor=10,
      text="the labels of one construct (`.else7` / `.ifend7`) share the number the counter had when the construct was opened.  Each "
           "`format!(\"..{}\", self.local_label_counter_X)` is evaluated before any nested generation can move the counter: between the increment of "
           "the counter that opens the construct and the format!, no statement calls a generate_* function.  A label formatted after the condition "
           "has been generated takes the number of a construct drawn inside the condition: `.ifend2` is defined twice")
def t_label_moment(facts, res, tier):
    from scopes import scoped
    n = 0
    for fn in genmodel.gen_fns(facts):
        for node, env, doms in scoped(fn):
            if not (node.get("k") == "macro" and node.get("name") == "format"):
                continue
            counters = {expr_text(a).replace(" ", "") for a in node.get("args", [])[1:] if re.fullmatch(r"self\.local_label_counter_\w+", expr_text(a).replace(" ", ""))}
            if not counters:
                continue
            c = sorted(counters)[0]
            n += 1
            stmts = [d[1] for d in doms if d[0] == "stmt"]
            # statements evaluated since the counter was last incremented (or since the function began)
            since = []
            found_inc = False
            for s in reversed(stmts):
                if any(x.get("k") == "assignop" and expr_text(x["l"]).replace(" ", "") == c for x in walk(s)):
                    found_inc = True
                    break
                since.append(s)
            if not found_inc:
                # `let l = format!(.., counter); counter += 1;`: the number is taken and consumed on the spot
                par = _parents(fn["body"]) if not hasattr(t_label_moment, "_par") or t_label_moment._par[0] is not fn else t_label_moment._par[1]
                t_label_moment._par = (fn, par)
                q = node
                blk = None
                while q is not None:
                    pq, kq, iq = par.get(id(q), (None, None, None))
                    if pq is not None and pq.get("k") == "block" and kq == "stmts":
                        blk, idx = pq, iq
                        break
                    q = pq
                nxt = blk["stmts"][idx + 1] if blk is not None and idx + 1 < len(blk["stmts"]) else None
                if nxt is not None and nxt.get("k") == "assignop" and expr_text(nxt["l"]).replace(" ", "") == c:
                    res.inst("T-LABEL-MOMENT:%s:%s" % (fn["name"], node["args"][0].get("v") if node["args"] and node["args"][0].get("k") == "lit" else "?"), True, {"function": fn["name"], "counter": c, "consumed_on_the_spot": True})
                    continue
            moved = [s for s in since if any(_self_call(x) and str(x["method"]).startswith("generate_") for x in walk(s))]
            key = "T-LABEL-MOMENT:%s:%s" % (fn["name"], (node["args"][0].get("v") if node["args"] and node["args"][0].get("k") == "lit" else "?"))
            res.inst(key, True, {"function": fn["name"], "counter": c, "nested_generation_before": len(moved)})
            if moved:
                res.fail(key, facts.where(fn, node), "%s formats the label `%s` from %s after `%s` has run: the nested generation may have drawn labels of its own, and this one takes their number instead of the number the construct was opened with" % (
                    fn["name"], node["args"][0].get("v"), c, expr_text(moved[-1])[:60]))
    if n == 0:
        raise AnchorMissing("no label formatted from a label counter")


@rule("T-DISPLAY-NO-SHADOW", floor=2,
      text="the text of an error is built from the fields of the Error (`msg`, `line`, `filename`, `included_in`).  Inside the Display "
           "implementation no inner pattern binds a name the enclosing arm has already bound to a field: `Some((file, line))` opened on "
           "`included_in` makes `{line}` the line of the #include in both places, and the line of the defect is never printed")
def t_display_no_shadow(facts, res, tier):
    n = 0
    for fn in facts.fns:
        if not fn["file"].endswith("/error.rs") or fn["name"] != "fmt" or fn.get("test"):
            continue
        for m in walk(fn["body"]):
            if m.get("k") != "match":
                continue
            for a in m["arms"]:
                outer = set(scopes_pat_names(a["pat"]))
                if not outer or "Error::" not in pat_text(a["pat"]).replace(" ", ""):
                    continue
                n += 1
                key = "T-DISPLAY-NO-SHADOW:%s" % pat_text(a["pat"]).replace(" ", "").split("{")[0]
                res.inst(key, True, {"fields": sorted(outer)})
                for inner in walk(a["body"]):
                    pats = []
                    if inner.get("k") == "match":
                        pats = [x["pat"] for x in inner["arms"]]
                    elif inner.get("k") == "letcond":
                        pats = [inner["pat"]]
                    elif inner.get("k") == "let":
                        pats = [inner.get("pat")]
                    for p in pats:
                        again = outer & set(scopes_pat_names(p))
                        if again:
                            res.fail(key, facts.where(fn, inner), "the Display arm for %s binds %s again in the inner pattern `%s`: the field of the error with that name is hidden from the text built below" % (key.split(":")[1], ", ".join("`%s`" % x for x in sorted(again)), pat_text(p)[:40]))
    if n == 0:
        raise AnchorMissing("error.rs: Display::fmt for Error not found")


LOG_MACROS = {"debug", "trace", "info", "warn", "error"}
STATEFUL_METHODS = {"peek", "peek_nth", "next", "next_back", "nth", "next_if", "pop", "push", "insert", "remove", "drain", "take", "swap", "sort", "borrow_mut",
                    "lock", "set", "replace", "reset_peek", "advance_by", "retain", "clear", "truncate", "entry", "get_mut", "iter_mut", "last_mut", "first_mut", "extend", "append"}


@rule("T-LOG-PURE", floor=25,
      text="the arguments of a logging macro (debug!, trace!, info!, warn!, error!) are evaluated only when the process-wide log level lets the "
           "message through.  They therefore change nothing: no argument calls a method that advances an iterator or a peek cursor or modifies a "
           "collection (`iter.peek()` on a MultiPeek moves the cursor).  Otherwise the code generated depends on RUST_LOG, on the embedding "
           "application, on an earlier job of the same process")
def t_log_pure(facts, res, tier):
    n = 0
    for fn in facts.fns:
        if fn.get("test") or "/tests/" in fn["file"]:
            continue
        for x in walk(fn["body"]):
            if not (x.get("k") == "macro" and x.get("name") in LOG_MACROS):
                continue
            n += 1
            key = "T-LOG-PURE:%s" % fn["name"]
            bad = [y for a in x.get("args", []) for y in walk(a) if y.get("k") == "mcall" and y["method"] in STATEFUL_METHODS]
            res.inst(key, True, {"function": fn["name"], "macro": x["name"], "stateful_calls": len(bad)})
            for y in bad:
                res.fail(key, facts.where(fn, x), "%s: an argument of %s! calls `%s`, which changes state: whether it runs depends on the process-wide log level, and so does what the compiler emits" % (fn["name"], x["name"], expr_text(y)[:50]))
    if n == 0:
        raise AnchorMissing("no logging macro found")


SWAP_REGISTER = {"LDA": "accumulator", "LDX": "x_register", "LDY": "y_register", "TXA": "accumulator", "TYA": "accumulator", "TAX": "x_register", "TAY": "y_register", "PLA": "accumulator"}


@rule("T-OPT-SWAP-RESET", floor=1,
      text="optimize() may exchange two adjacent instructions (a load and the CLC / SEC that follows).  The moved load is then analysed a second "
           "time, against what its own first analysis recorded: the swap forgets what was known of every register a swapped instruction writes "
           "(`accumulator = None` for LDA; `x_register`, `y_register` for LDX, LDY), or the load is deleted as a redundant reload of the value it "
           "is itself the only source of")
def t_opt_swap_reset(facts, res, tier):
    fn = facts.fn("optimize", "AssemblyCode")
    conds = [x for x in walk(fn["body"]) if x.get("k") == "if" and any(y.get("k") == "assign" and expr_text(y["l"]).replace(" ", "") == "swap_both" and expr_text(y["r"]).strip() == "true" for y in walk(x["then"]))]
    blocks = [x for x in walk(fn["body"]) if x.get("k") == "if" and expr_text(x["cond"]).replace(" ", "").strip("()") == "swap_both"]
    if not conds or not blocks:
        raise AnchorMissing("optimize(): the swap rule or the swap block was not found")
    resets = {expr_text(y["l"]).replace(" ", "") for y in walk(blocks[0]["then"]) if y.get("k") == "assign" and expr_text(y["r"]).strip() == "None"}
    n = 0
    for c in conds:
        t = expr_text(c["cond"]).replace(" ", "")
        mns = set(re.findall(r"AsmMnemonic::(\w+)", t))
        for mn in sorted(mns):
            reg = SWAP_REGISTER.get(mn)
            if reg is None:
                continue
            n += 1
            key = "T-OPT-SWAP-RESET:%s" % mn
            res.inst(key, True, {"swapped": mn, "writes": reg, "forgotten_at_the_swap": sorted(resets)})
            if reg not in resets:
                res.fail(key, facts.where(fn, c), "optimize() swaps a %s with the instruction after it and the swap block does not forget `%s` (it resets %s): the moved %s is analysed again and deleted as a reload of the value it has itself recorded" % (mn, reg, sorted(resets) or "nothing", mn))
    if n == 0:
        raise AnchorMissing("optimize(): the swap rule names no register-writing instruction")


@rule("T-GRAMMAR-PREFIX-ORDER", floor=5,
      text="the alternatives of a pest choice are tried in order and the first that matches wins.  Where two alternatives of one choice are tokens "
           "(rules that are a plain string), one of which is a proper prefix of the other (`&` / `&&`, `<` / `<=` / `<<` / `<<=`, `+` / `+=`), the "
           "longer one comes first: after `&`, `&&` can never match, and `a && b` is read as `a & (&b)` - the address of b")
def t_grammar_prefix_order(facts, res, tier):
    rules = facts.grammar_rules()

    def alts(e):
        if isinstance(e, dict) and e.get("k") == "choice":
            return alts(e["a"]) + alts(e["b"])
        return [e]

    def literal(e):
        if isinstance(e, dict) and e.get("k") == "str":
            return e["v"]
        if isinstance(e, dict) and e.get("k") == "ident" and e["v"] in rules and rules[e["v"]]["expr"].get("k") == "str":
            return rules[e["v"]]["expr"]["v"]
        return None
    n = 0
    seen = set()

    def visit(rname, e):
        nonlocal n
        if not isinstance(e, dict):
            return
        if e.get("k") == "choice" and id(e) not in seen:
            al = alts(e)
            for x in walk_choice(e):
                seen.add(id(x))
            lits = [(i, literal(a), a.get("v")) for i, a in enumerate(al)]
            lits = [t for t in lits if t[1]]
            if len(lits) >= 2:
                n += 1
                key = "T-GRAMMAR-PREFIX-ORDER:%s" % rname
                pairs = [(a, b) for a in lits for b in lits if a[0] < b[0] and b[1] != a[1] and b[1].startswith(a[1])]
                res.inst(key, True, {"rule": rname, "tokens": len(lits), "prefix_pairs_out_of_order": len(pairs)})
                for a, b in pairs:
                    res.fail(key, "src/cc6502.pest:%s" % rules[rname].get("line"), "rule `%s`: the token `%s` (%s) is tried before `%s` (%s), of which it is a prefix: the longer token can never match there" % (rname, a[1], a[2], b[1], b[2]))
            for a in al:
                visit(rname, a)
            return
        for v in e.values():
            if isinstance(v, dict):
                visit(rname, v)

    def walk_choice(e):
        if isinstance(e, dict) and e.get("k") == "choice":
            yield e
            yield from walk_choice(e["a"])
            yield from walk_choice(e["b"])
    for rname, r in rules.items():
        visit(rname, r["expr"])
    if n == 0:
        raise AnchorMissing("the grammar has no choice between tokens")


@rule("T-TRUTH-WIDE", floor=3,
      text="`if (v)` asks whether v is non-zero - all of v.  In the arm of generate_simple_condition that tests a bare operand, each of the three "
           "memory operand kinds hands a 16-bit operand to generate_condition_16bits: `Absolute` under its width flag (`!eight_bits`), `AbsoluteX` "
           "and `AbsoluteY` under a test of the variable's type that names ShortPtr and CharPtrPtr.  `short t[4]; if (t[X])` otherwise looks at "
           "the low byte only, while `if (t[2])` and `if (t[X] != 0)` look at both")
def t_truth_wide(facts, res, tier):
    fn = facts.fn("generate_simple_condition", genmodel.GEN_QUAL)
    n = 0
    for m in walk(fn["body"]):
        if m.get("k") != "match":
            continue
        pats = [pat_text(a["pat"]).replace(" ", "") for a in m["arms"]]
        if not (any(p.startswith("ExprType::Absolute(") for p in pats) and any(p.startswith("ExprType::AbsoluteX(") for p in pats) and any(p.startswith("ExprType::Immediate(") for p in pats)):
            continue
        for a in m["arms"]:
            pt = pat_text(a["pat"]).replace(" ", "")
            mm = re.match(r"ExprType::(Absolute[XY]?)\(", pt)
            if not mm:
                continue
            n += 1
            kind = mm.group(1)
            key = "T-TRUTH-WIDE:generate_simple_condition:%s" % kind
            conds = []
            for x in walk(a["body"]):
                if x.get("k") == "if" and any(_self_call(y, ("generate_condition_16bits",)) for y in walk(x["then"])):
                    conds.append(expr_text(x["cond"]).replace(" ", ""))
            res.inst(key, True, {"operand": kind, "wide_under": conds})
            if kind == "Absolute":
                ok = any("eight_bits" in c for c in conds)
            else:
                ok = any("ShortPtr" in c and "CharPtrPtr" in c for c in conds)
            if not ok:
                res.fail(key, facts.where(fn, a["body"]), "generate_simple_condition, operand %s: the truth test never hands a 16-bit operand to generate_condition_16bits (%s): only the low byte decides" % (kind, "conditions seen: %s" % conds if conds else "no call under a condition"))
    if n == 0:
        raise AnchorMissing("generate_simple_condition: the match on the bare operand was not found")


@rule("T-Y-KEPT-FOR-HIGH", floor=1,
      text="an assignment to a 16-bit destination stores the low byte, then - without evaluating the destination again - the high byte.  When the "
           "destination is indexed by a Y that was parked for it (`ExprType::AbsoluteY`, `saved_y`), Y is still that index when the high byte is "
           "stored: in the Assign arm of generate_expr every restore of the parked Y that comes before the high byte pass is excluded for such a "
           "destination (`!matches!(left, ExprType::AbsoluteY(_))`, directly or through a local).  `sarr[i] = s` otherwise writes the high byte at "
           "the index Y had before the statement")
def t_y_kept_for_high(facts, res, tier):
    from scopes import scoped
    fn = facts.fn("generate_expr", genmodel.GEN_QUAL)
    par = _parents(fn["body"])
    n = 0
    for c in walk(fn["body"]):
        if not (_self_call(c, ("generate_assign",)) and c.get("args") and c["args"][-1].get("k") == "lit" and c["args"][-1].get("v") is True):
            continue
        # the Assign arm: the arm of the operator match that contains this second pass
        q = c
        arm = None
        while q is not None:
            pq, kq, iq = par.get(id(q), (None, None, None))
            if pq is not None and pq.get("k") == "match" and kq == "arms" and pat_text(q["pat"]).replace(" ", "") == "Operation::Assign":
                arm = q
                break
            q = pq
        if arm is None:
            continue
        stmts = arm["body"].get("stmts", [])
        idx = next((i for i, s in enumerate(stmts) if any(y is c for y in walk(s))), None)
        if idx is None:
            continue
        lets = {s["pat"]["name"]: expr_text(s["init"]).replace(" ", "") for s in stmts if s.get("k") == "let" and s.get("pat", {}).get("k") == "ident" and s.get("init") is not None}
        for s in stmts[:idx]:
            for x in walk(s):
                if _self_call(x, ("asm_restore_y", "restore_saved_y")):
                    n += 1
                    key = "T-Y-KEPT-FOR-HIGH:generate_expr:Assign"
                    # the condition of the enclosing if (within this statement)
                    cond = expr_text(s["cond"]).replace(" ", "") if s.get("k") == "if" else ""
                    expanded = cond
                    for nm, init in lets.items():
                        expanded = re.sub(r"!%s\b" % re.escape(nm), "!(" + init + ")", expanded)
                    ok = bool(re.search(r"!\(?matches!\(\w+,ExprType::AbsoluteY\(", expanded))
                    res.inst(key, True, {"restore_before_the_high_byte_pass_under": cond[:80], "excludes_a_Y_indexed_destination": ok})
                    if not ok:
                        res.fail(key, facts.where(fn, x), "generate_expr (assignment) restores the parked Y before the high byte pass under `%s`, also when the destination is the operand indexed by that Y: the high byte is stored at another index" % (cond[:60] or "no condition"))
        break
    if n == 0:
        raise AnchorMissing("generate_expr: no restore of the parked Y before the second pass of an assignment")


@rule("T-DECL-SIZE-KEPT", floor=3,
      text="a declaration may give the size of an array (`char s[10] = ..`).  Wherever compile_var_decl replaces `size` by the length of the "
           "initialiser it has just read (`size = Some(v.len())`), the declared size has been looked at first: an earlier statement of the same "
           "block opens `size` (`if let Some(s) = size`) and compares it with that length (refusing, or padding, when they differ).  Otherwise "
           "`const char s[10] = \"abc\"` silently becomes a 4-byte array: `sizeof(s)` is 4 and `s[7]` reads what follows the table")
def t_decl_size_kept(facts, res, tier):
    n = 0
    for fn in facts.fns:
        if not fn["file"].endswith("/compile.rs") or fn.get("test") or fn["name"] != "compile_var_decl":
            continue
        for b in walk(fn["body"]):
            if b.get("k") != "block":
                continue
            st = b.get("stmts", [])
            for i, s in enumerate(st):
                if not (s.get("k") == "assign" and expr_text(s["l"]).replace(" ", "") == "size"):
                    continue
                m = re.fullmatch(r"Some\((\w+)\.len\(\)\)", expr_text(s["r"]).replace(" ", ""))
                if not m:
                    continue
                vec = m.group(1)
                n += 1
                key = "T-DECL-SIZE-KEPT:compile_var_decl:%s#%d" % (vec, n)
                looked = False
                for e in st[:i]:
                    if e.get("k") == "if" and e["cond"].get("k") == "letcond" and expr_text(e["cond"]["e"]).replace(" ", "") == "size" and pat_text(e["cond"]["pat"]).replace(" ", "").startswith("Some("):
                        if ("%s.len()" % vec) in expr_text(e["then"]).replace(" ", ""):
                            looked = True
                res.inst(key, True, {"initialiser": vec, "declared_size_compared_first": looked, "where": facts.where(fn, s)})
                if not looked:
                    res.fail("T-DECL-SIZE-KEPT:compile_var_decl:%s" % vec, facts.where(fn, s), "compile_var_decl replaces the declared size by `%s.len()` without having compared the two: an initialiser shorter (or longer) than the declared array silently changes its size" % vec)
    if n == 0:
        raise AnchorMissing("compile_var_decl: no `size = Some(<v>.len())` found")


@rule("T-TMP-CLAIM", floor=12,
      text="a generator function that parks a value in cctmp and answers `ExprType::Tmp(..)` raises `tmp_in_use` before it returns: on the path of "
           "every `Ok(ExprType::Tmp(..))` that follows a `STA cctmp` emitted in the same function, `self.tmp_in_use = true` has been assigned (or "
           "the answer depends on a flag set together with it).  The caller reads `tmp_in_use` to decide whether cctmp is free: an unclaimed "
           "temporary is overwritten by the next operand that needs one")
def t_tmp_claim(facts, res, tier):
    from scopes import scoped
    n = 0
    for fn in genmodel.gen_fns(facts):
        body_text = expr_text(fn["body"]).replace(" ", "")
        if "ExprType::Tmp(" not in body_text:
            continue
        for node, env, doms in scoped(fn):
            t = expr_text(node).replace(" ", "")
            if not (node.get("k") == "call" and t.startswith("Ok(ExprType::Tmp(")):
                continue
            stm = [d[1] for d in doms if d[0] == "stmt"]
            stored = any(_self_call(x, ("asm",)) and len(x.get("args", [])) > 1 and expr_text(x["args"][0]).replace(" ", "").endswith("STA") and "ExprType::Tmp(" in expr_text(x["args"][1]).replace(" ", "") for s in stm for x in walk(s))
            if not stored:
                continue
            n += 1
            claimed = any(x.get("k") == "assign" and expr_text(x["l"]).replace(" ", "") == "self.tmp_in_use" and expr_text(x["r"]).strip() == "true" for s in stm for x in walk(s))
            key = "T-TMP-CLAIM:%s" % fn["name"]
            res.inst(key, True, {"function": fn["name"], "where": facts.where(fn, node), "claimed": claimed})
            if not claimed:
                res.fail(key, facts.where(fn, node), "%s stores a value in cctmp and answers ExprType::Tmp without raising `tmp_in_use`: the caller takes cctmp for free and parks the next operand over it" % fn["name"])
    if n == 0:
        raise AnchorMissing("no function answering ExprType::Tmp after a store to cctmp")


@rule("T-SIGN-KEYWORD", floor=4,
      text="the grammar writes the sign of a type as `var_sign = { \"signed\" | \"unsigned\" }`.  Every arm of compile.rs that handles `Rule::var_sign` "
           "decides by comparing the text of the pair with one of those two words (`p.as_str().eq(\"signed\")`): a comparison with any other string "
           "(\"return_signed\", left by a renaming) is never true, and `signed char f()` is silently unsigned")
def t_sign_keyword(facts, res, tier):
    rules = facts.grammar_rules()
    words = set()

    def lits(e):
        if isinstance(e, dict):
            if e.get("k") == "str":
                words.add(e["v"])
            for v in e.values():
                lits(v)
    if "var_sign" not in rules:
        raise AnchorMissing("grammar: rule var_sign not found")
    lits(rules["var_sign"]["expr"])
    n = 0
    for fn in facts.fns:
        if not fn["file"].endswith("/compile.rs") or fn.get("test"):
            continue
        for m in walk(fn["body"]):
            if m.get("k") != "match":
                continue
            for a in m["arms"]:
                if pat_text(a["pat"]).replace(" ", "") != "Rule::var_sign":
                    continue
                n += 1
                key = "T-SIGN-KEYWORD:%s" % fn["name"]
                cmps = [x for x in walk(a["body"]) if (x.get("k") == "mcall" and x["method"] in ("eq", "ne", "starts_with", "ends_with", "contains") and x["args"] and x["args"][0].get("k") == "lit")
                        or (x.get("k") == "binary" and x["op"] in ("==", "!=") and any(s.get("k") == "lit" and s.get("ty") == "str" for s in (x["l"], x["r"])))]
                used = []
                for x in cmps:
                    if x.get("k") == "mcall":
                        used.append(x["args"][0].get("v"))
                    else:
                        used += [s.get("v") for s in (x["l"], x["r"]) if s.get("k") == "lit"]
                res.inst(key, True, {"function": fn["name"], "compares_with": used, "grammar_words": sorted(words)})
                if not used:
                    res.fail(key, facts.where(fn, a["body"]), "%s handles Rule::var_sign without comparing its text with a word of the grammar" % fn["name"])
                for w in used:
                    if w not in words:
                        res.fail(key, facts.where(fn, a["body"]), "%s compares the sign keyword with \"%s\", which the grammar never produces (var_sign is %s): the test is constantly false" % (fn["name"], w, " | ".join(sorted(words))))
    if n == 0:
        raise AnchorMissing("compile.rs: no arm for Rule::var_sign")


@rule("T-SHIFT-ASSIGN-WIDE", floor=1,
      text="`v <<= k` / `v >>= k` on a 16-bit operand is done in place on both bytes (generate_shift_16bits).  The arm of generate_expr for the shift "
           "assignments decides that for a destination at a fixed offset (`Absolute`) and for one indexed by X (`AbsoluteX`): every type the "
           "indexed test calls 16 bits wide (ShortPtr) is also one the fixed-offset test accepts - `t[2]` and `t[X]` are elements of the same table")
def t_shift_assign_wide(facts, res, tier):
    fn = facts.fn("generate_expr", genmodel.GEN_QUAL)
    n = 0
    for m in walk(fn["body"]):
        if m.get("k") != "match":
            continue
        for a in m["arms"]:
            pt = pat_text(a["pat"]).replace(" ", "")
            if "Operation::Bls(true)" not in pt:
                continue
            sets = {}
            for x in walk(a["body"]):
                if x.get("k") == "if" and x["cond"].get("k") == "letcond":
                    kind = re.match(r"ExprType::(Absolute[XY]?)\(", pat_text(x["cond"]["pat"]).replace(" ", ""))
                    if not kind:
                        continue
                    inner = [y for y in walk(x["then"]) if y.get("k") == "if" and any(_self_call(z, ("generate_shift_16bits",)) for z in walk(y["then"]))]
                    types = set()
                    for y in inner:
                        types |= set(re.findall(r"VariableType::(\w+)", expr_text(y["cond"])))
                    if inner:
                        sets[kind.group(1)] = types
            if "Absolute" in sets and "AbsoluteX" in sets:
                n += 1
                key = "T-SHIFT-ASSIGN-WIDE:generate_expr"
                res.inst(key, True, {"fixed_offset": sorted(sets["Absolute"]), "indexed": sorted(sets["AbsoluteX"])})
                missing = sets["AbsoluteX"] - sets["Absolute"]
                if missing:
                    res.fail(key, facts.where(fn, a["body"]), "generate_expr (shift assignment): an element reached through X is shifted on 16 bits for %s, the same element at a constant subscript is not (the fixed-offset test names %s): only its low byte is shifted" % (sorted(missing), sorted(sets["Absolute"])))
            # round 20: what is not shifted in place falls into the 8-bit path (generate_shift + generate_assign), which writes one byte.
            # Before that path a refusal names every 16-bit destination: Absolute with the types of the in-place test, AbsoluteX and its
            # sibling AbsoluteY with the types of the indexed test
            if "Absolute" in sets and "AbsoluteX" in sets:
                key2 = "T-SHIFT-ASSIGN-WIDE:generate_expr:narrow-path"
                refused = {}
                for x in walk(a["body"]):
                    if x.get("k") != "let" or x.get("pat", {}).get("k") != "ident" or x.get("init", {}).get("k") != "match":
                        continue
                    if "left" not in expr_text(x["init"]["e"]):
                        continue
                    name = x["pat"]["name"]
                    guarded = any(y.get("k") == "if" and re.search(r"\b%s\b" % re.escape(name), expr_text(y["cond"])) and not expr_text(y["cond"]).startswith("!")
                                  and any(z.get("k") == "return" or expr_text(z).startswith("return Err") for z in walk(y["then"])) for y in walk(a["body"]))
                    if not guarded:
                        continue
                    for aa in x["init"]["arms"]:
                        pt2 = pat_text(aa["pat"]).replace(" ", "")
                        tys = set(re.findall(r"VariableType::(\w+)", expr_text(aa["body"])))
                        for kd in re.findall(r"ExprType::(Absolute[XY]?)\(", pt2):
                            refused.setdefault(kd, set()).update(tys)
                res.inst(key2, True, {"refused": {k: sorted(v) for k, v in sorted(refused.items())}})
                need = {"Absolute": sets["Absolute"], "AbsoluteX": sets["AbsoluteX"], "AbsoluteY": sets["AbsoluteX"]}
                lacking = ["%s:%s" % (k, t) for k, ts in sorted(need.items()) for t in sorted(ts) if t not in refused.get(k, set())]
                if lacking:
                    res.fail(key2, facts.where(fn, a["body"]), "generate_expr (shift assignment): a 16-bit destination that is not shifted in place (a count of 8 or more, an element "
                             "reached through Y or a memory index) reaches the 8-bit path, which writes its low byte only (`a >>= 9` is `LDA #0 / STA a`); not refused before it: %s" % ", ".join(lacking))
    if n == 0:
        raise AnchorMissing("generate_expr: the shift-assignment arm with its two width tests was not found")


@rule("T-Y-INDEX-LIVE", floor=1,
      text="in an assignment the destination is evaluated first; `tab[Y]` becomes the operand `tab,Y` that uses the program's own Y.  The right side "
           "may then park Y and load an index of its own (`*p`, `u[i]`).  Before the store the Assign arm of generate_expr refuses that "
           "combination: it notes, before the right side is evaluated, that the destination is `AbsoluteY` while no Y is parked, and returns an "
           "error when a Y has been parked afterwards.  Otherwise `tab[Y] = *p` stores into `tab[0]`")
def t_y_index_live(facts, res, tier):
    fn = facts.fn("generate_expr", genmodel.GEN_QUAL)
    n = 0
    for m in walk(fn["body"]):
        if m.get("k") != "match":
            continue
        for a in m["arms"]:
            if pat_text(a["pat"]).replace(" ", "") != "Operation::Assign":
                continue
            stmts = a["body"].get("stmts", [])
            evals = [i for i, s in enumerate(stmts) if s.get("k") == "let" and any(_self_call(x, ("generate_expr",)) for x in walk(s))]
            store = next((i for i, s in enumerate(stmts) if any(_self_call(x, ("generate_assign",)) for x in walk(s))), None)
            if len(evals) < 2 or store is None:
                continue
            n += 1
            key = "T-Y-INDEX-LIVE:generate_expr:Assign"
            noted = None
            for s in stmts[evals[0] + 1:evals[1]]:
                if s.get("k") == "let" and s.get("pat", {}).get("k") == "ident":
                    t = expr_text(s["init"]).replace(" ", "")
                    if re.search(r"matches!\(\w+,ExprType::AbsoluteY\(", t) and "!self.saved_y" in t:
                        noted = s["pat"]["name"]
            refused = False
            if noted:
                for s in stmts[evals[1] + 1:store]:
                    if s.get("k") == "if":
                        c = expr_text(s["cond"]).replace(" ", "")
                        if re.search(r"\b%s\b" % re.escape(noted), c) and "self.saved_y" in c and "!self.saved_y" not in c and any(y.get("k") == "return" and "Err(" in expr_text(y) for y in walk(s["then"])):
                            refused = True
            res.inst(key, True, {"destination_noted_as": noted, "refused_when_Y_was_parked_by_the_right_side": refused})
            if not (noted and refused):
                res.fail(key, facts.where(fn, stmts[store]), "generate_expr (assignment) stores through a destination indexed by the program's Y without refusing the case where the right side has parked Y and loaded another index: the store goes to another element")
    if n == 0:
        raise AnchorMissing("generate_expr: the Assign arm was not found")


@rule("T-CARRY-CHAIN", floor=2,
      text="the high byte pass of `+` / `-` continues the carry chain of the low byte pass.  A second addition or subtraction in the same high byte "
           "pass would take the carry of the first high byte operation instead of its own low byte: generate_arithm refuses it (`Carry "
           "propagation too complex`) whenever `self.carry_propagation_error && high_byte` - whatever the operand is.  An exemption for some "
           "operand kinds (an 8-bit cell \"only adds 0\") still lets that ADC #0 consume the wrong carry: `s = a + b + c` with a = 0x00ff, b = 1 "
           "gives 0")
def t_carry_chain(facts, res, tier):
    fn = facts.fn("generate_arithm", genmodel.GEN_QUAL)
    n = 0
    for x in walk(fn["body"]):
        if x.get("k") != "if":
            continue
        t = expr_text(x["then"]).replace(" ", "")
        if "Carrypropagationtoocomplex" not in t:
            continue
        n += 1
        c = expr_text(x["cond"]).replace(" ", "")
        parts = sorted(p.strip("()") for p in re.split(r"&&", c.strip("()")))
        key = "T-CARRY-CHAIN:generate_arithm#%d" % n
        res.inst(key, True, {"refused_when": parts})
        if parts != ["high_byte", "self.carry_propagation_error"]:
            res.fail("T-CARRY-CHAIN:generate_arithm", facts.where(fn, x), "generate_arithm refuses a second add/sub of a high byte pass only when `%s`: the extra condition admits chains whose second ADC / SBC takes the carry of the first high byte operation" % c)
    if n == 0:
        raise AnchorMissing("generate_arithm: the carry propagation refusal was not found")


SAME_REG = {("LDA", "STA"), ("LDX", "STX"), ("LDY", "STY"), ("STA", "LDA"), ("STX", "LDX"), ("STY", "LDY")}


@rule("T-OPT-SAME-REG", floor=2,
      text="a peephole rule of optimize() that deletes one of two adjacent instructions because they name the same cell (`i1.dasm_operand == "
           "i2.dasm_operand`: the store back after a load, the reload after a store) is about one register: every pair of mnemonics its condition "
           "admits is LDA/STA, LDX/STX or LDY/STY (in either order).  `LDX v` followed by `STY v` is not a store back: deleting the STY leaves v "
           "without the value of Y")
def t_opt_same_reg(facts, res, tier):
    fn = facts.fn("optimize", "AssemblyCode")
    n = 0
    for x in walk(fn["body"]):
        if x.get("k") != "if":
            continue
        if not any(y.get("k") == "assign" and expr_text(y["l"]).replace(" ", "") in ("remove_second", "remove_first", "remove_both") and expr_text(y["r"]).strip() == "true" for y in walk(x["then"])):
            continue
        c = expr_text(x["cond"]).replace(" ", "")
        if not re.search(r"(\w+)\.dasm_operand==(\w+)\.dasm_operand", c):
            continue
        sets = {}
        for inst in ("i1", "i2"):
            ms = set(re.findall(r"%s\.mnemonic==AsmMnemonic::(\w+)" % inst, c))
            for mm in re.finditer(r"matches!\(%s\.mnemonic,([^)]*)\)" % inst, c):
                ms |= set(re.findall(r"AsmMnemonic::(\w+)", mm.group(1)))
            sets[inst] = ms
        if not sets["i1"] or not sets["i2"]:
            continue
        n += 1
        key = "T-OPT-SAME-REG:%s+%s" % ("|".join(sorted(sets["i1"])), "|".join(sorted(sets["i2"])))
        pairs = [(a, b) for a in sorted(sets["i1"]) for b in sorted(sets["i2"])]
        bad = [p for p in pairs if p not in SAME_REG and {p[0][:2], p[1][:2]} <= {"LD", "ST"}]
        res.inst(key, True, {"first": sorted(sets["i1"]), "second": sorted(sets["i2"]), "pairs_admitted": len(pairs)})
        if bad and "||" not in c:
            res.fail(key, facts.where(fn, x), "optimize() deletes an instruction of the pairs %s on the ground that both name the same cell: the two instructions use different registers" % ", ".join("%s/%s" % p for p in bad))
    if n == 0:
        raise AnchorMissing("optimize(): no same-cell pair rule found")


@rule("T-WRITE-ALL", floor=1,
      text="the size the compiler reports is counted over the lines of an AssemblyCode (size_bytes, check_branches); what the assembler gets is "
           "what AssemblyCode::write prints.  write hands every line of `self.code` to the line writer, in order, without skipping any: a jump "
           "\"not worth a line of the listing\" is still counted as 3 bytes")
def t_write_all(facts, res, tier):
    fn = next((f for f in facts.fns if f["name"] == "write" and f.get("qual") == "AssemblyCode" and not f.get("test")), None)
    if fn is None:
        raise AnchorMissing("AssemblyCode::write not found")
    loops = [x for x in walk(fn["body"]) if x.get("k") in ("for", "while", "loop")]
    key = "T-WRITE-ALL:AssemblyCode::write"
    res.inst(key, True, {"loops": len(loops)})
    if len(loops) != 1 or loops[0].get("k") != "for" or expr_text(loops[0].get("iter") or {}).replace(" ", "").lstrip("&") not in ("self.code", "self.code.iter()"):
        res.fail(key, facts.where(fn, loops[0] if loops else fn["body"]), "AssemblyCode::write does not walk `self.code` with a plain `for` over all its lines")
        return
    lp = loops[0]
    skips = [x for x in walk(lp["body"]) if x.get("k") in ("continue", "break")]
    top = [s for s in lp["body"].get("stmts", []) if any(y.get("k") == "mcall" and y["method"] == "write" for y in walk(s)) and s.get("k") not in ("if", "match")]
    if skips or not top:
        res.fail(key, facts.where(fn, skips[0] if skips else lp), "AssemblyCode::write skips lines of the code (%s): what is written is no longer what size_bytes and check_branches counted" % ("`%s` in the loop" % skips[0]["k"] if skips else "the line writer is called under a condition"))


@rule("T-PARSE-SAME-TEXT", floor=1,
      text="positions in the parse tree are byte offsets into the text the parser was given; syntax_error, compiler_error and warning turn them into "
           "lines by scanning `CompilerState.preprocessed_utf8`.  The two are the same text: the second argument of `Cc2600Parser::parse(Rule::program, "
           "..)` in compile() is the very value stored in that field, not a trimmed, sliced or rewritten view of it (3 bytes of byte order mark "
           "stripped for the parser only put every diagnostic 3 bytes - sometimes a line - early)")
def t_parse_same_text(facts, res, tier):
    fn = next((f for f in facts.fns if f["name"] == "compile" and f["file"].endswith("/compile.rs") and not f.get("test")), None)
    if fn is None:
        raise AnchorMissing("compile() not found")
    stored = None
    for x in walk(fn["body"]):
        if x.get("k") == "struct" and (x.get("segs") or [""])[-1] == "CompilerState":
            for f in x.get("fields", []):
                if f.get("name") == "preprocessed_utf8":
                    stored = expr_text(f["e"]).replace(" ", "") if f.get("e") is not None else "preprocessed_utf8"
    parsed = None
    node = None
    for x in walk(fn["body"]):
        if x.get("k") == "call" and expr_text(x["func"]).replace(" ", "").endswith("Parser::parse") and len(x["args"]) == 2 and "Rule::program" in expr_text(x["args"][0]):
            parsed = expr_text(x["args"][1]).replace(" ", "")
            node = x
    if stored is None or parsed is None:
        raise AnchorMissing("compile(): the CompilerState literal or the parser call was not found")
    key = "T-PARSE-SAME-TEXT:compile"
    res.inst(key, True, {"stored": stored, "parsed": parsed})
    if parsed.lstrip("&") != stored.lstrip("&"):
        res.fail(key, facts.where(fn, node), "compile() parses `%s` while the positions of the parse tree are later looked up in `%s` (CompilerState.preprocessed_utf8): offsets into one text are used in another" % (parsed, stored))


@rule("T-CONST-FIRST", floor=1,
      text="a name that stands for a constant (`const char K = 3`: a definition `Value(Int(v))`) is replaced by the constant as soon as it is met: in "
           "the arm of generate_expr for a plain identifier, the test of the definition is the first decision, before the high byte / sign "
           "extension cases that load the variable from memory (a constant has no memory cell of its own).  `const signed char c = -3; s = c;` "
           "otherwise sign-extends whatever byte lives at the address `c`")
def t_const_first(facts, res, tier):
    fn = facts.fn("generate_expr", genmodel.GEN_QUAL)
    n = 0
    for m in walk(fn["body"]):
        if m.get("k") != "match" or expr_text(m["e"]).replace(" ", "") != "sub_output":
            continue
        arm = next((a for a in m["arms"] if pat_text(a["pat"]).replace(" ", "") == "ExprType::Nothing"), None)
        if arm is None:
            continue
        n += 1
        key = "T-CONST-FIRST:generate_expr:identifier"
        body = arm["body"]
        st = body.get("stmts", [body]) if body.get("k") == "block" else [body]
        first = next((s for s in st if s.get("k") in ("if", "match")), None)
        ok = first is not None and first.get("k") == "if" and first["cond"].get("k") == "letcond" and "VariableDefinition::Value(VariableValue::Int(" in pat_text(first["cond"]["pat"]).replace(" ", "") \
            and "Immediate" in expr_text(first["then"])
        res.inst(key, True, {"first_decision": expr_text(first["cond"])[:70] if first is not None and first.get("k") == "if" else None})
        if not ok:
            res.fail(key, facts.where(fn, first if first is not None else body), "generate_expr (plain identifier): the first decision is not `if let VariableDefinition::Value(VariableValue::Int(v)) = &v.def => Immediate(v)`: a constant can be taken for a variable in memory by the cases tried before")
    if n == 0:
        raise AnchorMissing("generate_expr: the match on the subscript of an identifier was not found")


@rule("T-LOOPS-BALANCED", floor=4,
      text="`self.loops` is the stack of the constructs a `break` / `continue` can leave: a construct pushes its labels, generates its body, and pops.  "
           "Between the push and the pop no generator function returns normally (`return Ok(..)`): an early return leaves a stale entry, and the "
           "next `break` of the enclosing loop jumps to the end label of a construct that never emitted it")
def t_loops_balanced(facts, res, tier):
    n = 0
    for fn in genmodel.gen_fns(facts):
        pushes = [x for x in walk(fn["body"]) if x.get("k") == "mcall" and x["method"] == "push" and expr_text(x["recv"]).replace(" ", "") == "self.loops"]
        pops = [x for x in walk(fn["body"]) if x.get("k") == "mcall" and x["method"] == "pop" and expr_text(x["recv"]).replace(" ", "") == "self.loops"]
        if not pushes:
            continue
        line = lambda x: tuple(int(v) for v in str(x.get("loc", "0:0")).split(":"))
        for p in pushes:
            n += 1
            key = "T-LOOPS-BALANCED:%s" % fn["name"]
            after = [q for q in pops if line(q) > line(p)]
            res.inst(key, True, {"function": fn["name"], "pop_follows": bool(after)})
            if not after:
                res.fail(key, facts.where(fn, p), "%s pushes an entry on `self.loops` and never pops it" % fn["name"])
                continue
            end = min(line(q) for q in after)
            early = [r for r in walk(fn["body"]) if r.get("k") == "return" and line(p) < line(r) < end and not expr_text(r.get("e") or {}).replace(" ", "").startswith("Err(")]
            for r in early:
                res.fail(key, facts.where(fn, r), "%s returns `%s` between the push on `self.loops` and the pop: the entry stays, and a later `break` jumps to the end label of this construct, which was never emitted" % (fn["name"], expr_text(r.get("e") or {})[:30]))
    if n == 0:
        raise AnchorMissing("no push on self.loops found")


@rule("T-LOAD-OPERAND-PROTECTED", floor=1,
      text="`load(e)` is an explicit read: whatever `e` reads from memory or from a device register is read by the statement, once, at every "
           "optimisation level.  In generate_statement the operand of a Load is evaluated between `self.protected = true` and `self.protected = "
           "false`, and the flag is lowered before the result is opened with `?` (no exit with the flag up).  Evaluated unprotected, the `LDA REG` "
           "of `load(*REG & 0x0f)` is an ordinary reload the optimiser deletes after `load(*REG)`")
def t_load_operand_protected(facts, res, tier):
    fn = facts.fn("generate_statement", genmodel.GEN_QUAL)
    n = 0
    for m in walk(fn["body"]):
        if m.get("k") != "match":
            continue
        for a in m["arms"]:
            if not pat_text(a["pat"]).replace(" ", "").startswith("Statement::Load("):
                continue
            n += 1
            key = "T-LOAD-OPERAND-PROTECTED:generate_statement"
            st = a["body"].get("stmts", [])
            idx = next((i for i, s in enumerate(st) if any(_self_call(x, ("generate_expr",)) for x in walk(s))), None)
            is_set = lambda s, v: s.get("k") == "assign" and expr_text(s["l"]).replace(" ", "") == "self.protected" and expr_text(s["r"]).strip() == v
            ok = idx is not None and idx > 0 and idx + 1 < len(st) and is_set(st[idx - 1], "true") and is_set(st[idx + 1], "false") and not any(x.get("k") == "try" for x in walk(st[idx]))
            res.inst(key, True, {"operand_evaluated_between_raise_and_lower": ok})
            if not ok:
                res.fail(key, facts.where(fn, st[idx] if idx is not None else a["body"]), "generate_statement evaluates the operand of load() without the protected flag raised around it (or leaves with the flag up on an error): the reads the operand makes are ordinary instructions the optimiser may delete")
    if n == 0:
        raise AnchorMissing("generate_statement: no arm for Statement::Load")


@rule("T-SIGNEXT-ONLY", floor=3,
      text="the high byte of a signed 8-bit operand is its sign, $00 or $FF, whichever way the operand is reached.  In the identifier arm of "
           "generate_expr every branch taken for `high_byte && .. signed` (a signed char element at a constant offset, through X, through Y, a "
           "signed char variable) answers with generate_sign_extend of that operand and nothing else: a shortcut that answers "
           "`Immediate(<the element>)` for a ROM table gives the high byte of the *literal* (`0x90` -> $00) where the same element read through X "
           "is sign-extended to $FF")
def t_signext_only(facts, res, tier):
    fn = facts.fn("generate_expr", genmodel.GEN_QUAL)
    n = 0
    for x in walk(fn["body"]):
        if x.get("k") != "if":
            continue
        c = expr_text(x["cond"]).replace(" ", "")
        if not ("high_byte" in c and "signed" in c and "!high_byte" not in c):
            continue
        calls = [y for y in walk(x["then"]) if _self_call(y, ("generate_sign_extend",))]
        if not calls:
            continue
        n += 1
        key = "T-SIGNEXT-ONLY:generate_expr#%d" % n
        st = x["then"].get("stmts", [])
        only = len(st) == 1 and any(y is calls[0] for y in walk(st[0])) and not any(y.get("k") == "return" for y in walk(x["then"]))
        res.inst(key, True, {"condition": c[:70], "answers_with_sign_extension_only": only})
        if not only:
            res.fail("T-SIGNEXT-ONLY:generate_expr", facts.where(fn, x["then"]), "generate_expr: under `%s` the high byte is not always the sign extension of the operand (another answer is returned first): the same value reached another way gets another high byte" % c[:70])
    if n == 0:
        raise AnchorMissing("generate_expr: no sign extension under a high byte test found")


@rule("T-CPP-PARAM-TRIM", floor=1,
      text="a blank, a tab or a comment may stand on either side of a comma between the parameters of a function-like macro.  Where the #define "
           "branch of process() splits the parameter list at its commas, each name is trimmed on both sides (`v.trim()`) before it becomes a "
           "regular expression and a capture-group name: trimmed on one side only, `#define add(a ,b)` keeps `a ` as a name and the definition "
           "is rejected")
def t_cpp_param_trim(facts, res, tier):
    fn = facts.fn("process", "")
    n = 0
    for lp in walk(fn["body"]):
        if lp.get("k") != "for":
            continue
        it = expr_text(lp.get("iter") or {}).replace(" ", "")
        if not re.search(r"\.split\((','|\",\")\)$", it):
            continue
        var = scopes_pat_names(lp.get("pat"))
        if len(var) != 1:
            continue
        uses_regex = "Regex::new" in expr_text(lp["body"])
        if not uses_regex:
            continue
        n += 1
        key = "T-CPP-PARAM-TRIM:process"
        # the name used in the body: a local bound to <var>.trim(), or <var>.trim() itself
        names = {}
        for s in lp["body"].get("stmts", []):
            if s.get("k") == "let" and s.get("pat", {}).get("k") == "ident" and s.get("init") is not None:
                names[s["pat"]["name"]] = expr_text(s["init"]).replace(" ", "")
        derived = {nm: t for nm, t in names.items() if re.match(r"^%s\b" % re.escape(var[0]), t)}
        ok = any(t == "%s.trim()" % var[0] for t in derived.values())
        raw_use = any(y.get("k") == "path" and y["segs"] == [var[0]] for s in lp["body"].get("stmts", []) if s.get("k") != "let" for y in walk(s))
        res.inst(key, True, {"split_variable": var[0], "names": derived, "raw_use": raw_use})
        if not ok or raw_use:
            res.fail(key, facts.where(fn, lp), "process() splits the parameter list of a function-like macro at the commas and uses `%s` as the name: not trimmed on both sides, a blank or comment next to a comma stays in the name" % (list(derived.values())[0] if derived else var[0]))
    if n == 0:
        raise AnchorMissing("process(): the loop over the parameters of a function-like macro was not found")


@rule("T-STMT-TAIL", floor=1,
      text="generate_statement ends every statement the same way: after the dispatch on the kind of statement it applies what the statement left "
           "pending (`purge_deferred_plusplus_and_savey`: postfix ++/--, the restore of a parked Y).  No arm of the dispatch leaves the function "
           "normally before that tail (`return self.generate_..(..)`): the pending INX / `LDY cctmp` would be emitted by the next statement, "
           "after the label that joins an if/else, a loop or a case")
def t_stmt_tail(facts, res, tier):
    fn = facts.fn("generate_statement", genmodel.GEN_QUAL)
    stmts = fn["body"].get("stmts", [])
    disp = next((i for i, s in enumerate(stmts) if any(x.get("k") == "match" and expr_text(x["e"]).replace(" ", "").lstrip("&") in ("code.statement",) for x in [s] + [y for y in walk(s) if y.get("k") == "match"][:1])), None)
    if disp is None:
        raise AnchorMissing("generate_statement: the dispatch on code.statement was not found")
    tail = [s for s in stmts[disp + 1:] if any(_self_call(x, ("purge_deferred_plusplus_and_savey",)) for x in walk(s))]
    key = "T-STMT-TAIL:generate_statement"
    m = next(x for x in [stmts[disp]] + list(walk(stmts[disp])) if x.get("k") == "match" and expr_text(x["e"]).replace(" ", "").lstrip("&") == "code.statement")
    early = [(a, r) for a in m["arms"] for r in walk(a["body"]) if r.get("k") == "return" and not expr_text(r.get("e") or {}).replace(" ", "").startswith("Err(")]
    res.inst(key, True, {"arms": len(m["arms"]), "tail_purges": bool(tail), "arms_returning_early": len(early)})
    if not tail:
        res.fail(key, facts.where(fn, stmts[-1]), "generate_statement no longer applies the pending ++/-- and the restore of Y after the statement it has generated")
    for a, r in early:
        res.fail(key, facts.where(fn, r), "generate_statement: the arm `%s` returns before the tail that applies what the statement left pending: the INX / LDY cctmp of `load(tab[X++])`, `store(buf[i])` is emitted by the next statement, after the join label of the construct around it" % pat_text(a["pat"])[:40])


@rule("T-STORE-OPERAND-ACC", floor=1,
      text="`store(e)` writes the accumulator - the value the program put there - to e.  While generate_statement works out the operand of a Store "
           "the accumulator is in use: the operand is evaluated between `self.acc_in_use = true` and `self.acc_in_use = false`, lowered before "
           "the result is opened with `?`.  Evaluated with A free, a computed subscript (`store(buf[i + 1])`) is worked out in A and that is what "
           "gets stored")
def t_store_operand_acc(facts, res, tier):
    fn = facts.fn("generate_statement", genmodel.GEN_QUAL)
    n = 0
    for m in walk(fn["body"]):
        if m.get("k") != "match":
            continue
        for a in m["arms"]:
            if not pat_text(a["pat"]).replace(" ", "").startswith("Statement::Store("):
                continue
            n += 1
            key = "T-STORE-OPERAND-ACC:generate_statement"
            st = a["body"].get("stmts", [])
            idx = next((i for i, s in enumerate(st) if any(_self_call(x, ("generate_expr",)) for x in walk(s))), None)
            is_set = lambda s, v: s.get("k") == "assign" and expr_text(s["l"]).replace(" ", "") == "self.acc_in_use" and expr_text(s["r"]).strip() == v
            ok = idx is not None and idx > 0 and idx + 1 < len(st) and is_set(st[idx - 1], "true") and is_set(st[idx + 1], "false") and not any(x.get("k") == "try" for x in walk(st[idx]))
            res.inst(key, True, {"operand_evaluated_with_the_accumulator_in_use": ok})
            if not ok:
                res.fail(key, facts.where(fn, st[idx] if idx is not None else a["body"]), "generate_statement evaluates the operand of store() with the accumulator marked free: a subscript or address computed in A replaces the value the statement is meant to store")
    if n == 0:
        raise AnchorMissing("generate_statement: no arm for Statement::Store")


@rule("T-SUBSCRIPT-TMP-RESERVED", floor=1,
      text="for a computed subscript generate_expr reserves, before it evaluates the subscript, the slot where `STY cctmp` will be written once the "
           "subscript is known (the program's Y is parked while Y serves as the index).  From that point cctmp belongs to the parked Y: the "
           "first evaluation of the subscript runs with `tmp_in_use` raised (when the slot was reserved and the flag was down) and lowers it "
           "again afterwards.  A subscript that parks an operand of its own in cctmp (`a[(i & 3) + (j & 1)]`) otherwise overwrites the Y that the "
           "final `LDY cctmp` restores")
def t_subscript_tmp_reserved(facts, res, tier):
    fn = facts.fn("generate_expr", genmodel.GEN_QUAL)
    n = 0
    for b in walk(fn["body"]):
        if b.get("k") != "block":
            continue
        st = b.get("stmts", [])
        idx = next((i for i, s in enumerate(st) if s.get("k") == "let" and s.get("init") is not None and _self_call(_unwrap_try(s["init"]), ("generate_expr",))
                    and _unwrap_try(s["init"])["args"] and expr_text(_unwrap_try(s["init"])["args"][0]).replace(" ", "") == "sub"
                    and any(x.get("k") == "assign" and expr_text(x["l"]).replace(" ", "") == "self.sub_output" for s2 in st for x in walk(s2))), None)
        if idx is None:
            continue
        n += 1
        key = "T-SUBSCRIPT-TMP-RESERVED:generate_expr"
        lets = {s["pat"]["name"]: expr_text(s["init"]).replace(" ", "") for s in st[:idx] if s.get("k") == "let" and s.get("pat", {}).get("k") == "ident" and s.get("init") is not None}
        raised = None
        for s in st[:idx]:
            if s.get("k") == "if":
                c = expr_text(s["cond"]).replace(" ", "").strip("()")
                if c in lets and "dummy.is_some()" in lets[c] and "!self.tmp_in_use" in lets[c] and any(
                        y.get("k") == "assign" and expr_text(y["l"]).replace(" ", "") == "self.tmp_in_use" and expr_text(y["r"]).strip() == "true" for y in walk(s["then"])):
                    raised = c
        lowered = raised is not None and any(s.get("k") == "if" and expr_text(s["cond"]).replace(" ", "").strip("()") == raised and any(
            y.get("k") == "assign" and expr_text(y["l"]).replace(" ", "") == "self.tmp_in_use" and expr_text(y["r"]).strip() == "false" for y in walk(s["then"])) for s in st[idx + 1:])
        no_try = not any(x.get("k") == "try" for x in walk(st[idx]))
        res.inst(key, True, {"reserved_under": raised, "released_after": lowered, "no_exit_in_between": no_try})
        if not (raised and lowered and no_try):
            res.fail(key, facts.where(fn, st[idx]), "generate_expr evaluates a computed subscript without keeping cctmp for the program's Y (the slot of the `STY cctmp` is already reserved): a subscript that uses cctmp itself overwrites the parked Y")
    if n == 0:
        raise AnchorMissing("generate_expr: the first evaluation of a computed subscript was not found")


@rule("T-SIGNEXT-ALL-ROUTES", floor=4,
      text="an element of a `signed char` table can be reached at a constant offset, through X, through Y, or through a Y loaded from a memory "
           "index or a pointer (Y parked meanwhile).  In the identifier arm of generate_expr every route that answers with the indexed operand "
           "(`Ok(ExprType::AbsoluteX(..))` / `Ok(ExprType::AbsoluteY(..))`) is the other branch of a test `high_byte && .. signed` that answers with "
           "generate_sign_extend: `s = tab[i]` otherwise gets $00 as its high byte where `s = tab[X]` gets the sign")
def t_signext_all_routes(facts, res, tier):
    fn = facts.fn("generate_expr", genmodel.GEN_QUAL)
    par = _parents(fn["body"])
    n = 0
    for m in walk(fn["body"]):
        if m.get("k") != "match" or expr_text(m["e"]).replace(" ", "") != "sub_output":
            continue
        for x in walk(m):
            t = expr_text(x).replace(" ", "")
            if not (x.get("k") == "call" and re.match(r"Ok\(ExprType::Absolute[XY]\(variable", t)):
                continue
            n += 1
            key = "T-SIGNEXT-ALL-ROUTES:generate_expr:%s#%d" % (t[13:22], n)
            q = x
            guarded = False
            while q is not None and q is not m:
                pq, kq, iq = par.get(id(q), (None, None, None))
                if pq is not None and pq.get("k") == "if" and kq == "else":
                    c = expr_text(pq["cond"]).replace(" ", "")
                    if "high_byte" in c and "signed" in c and any(_self_call(y, ("generate_sign_extend",)) for y in walk(pq["then"])):
                        guarded = True
                q = pq
            res.inst(key, True, {"answer": t[:40], "other_branch_of_a_sign_extension": guarded})
            if not guarded:
                res.fail("T-SIGNEXT-ALL-ROUTES:generate_expr", facts.where(fn, x), "generate_expr answers `%s` on a route that has no `high_byte && .. signed` case with generate_sign_extend: the high byte of a signed char element reached this way is $00" % t[:40])
    if n == 0:
        raise AnchorMissing("generate_expr: no indexed answer in the match on the subscript")


def _key_text(e):
    t = expr_text(e).replace(" ", "")
    while True:
        m = re.fullmatch(r"(.*)\.(clone|to_string|into|to_owned)\(\)", t)
        if not m:
            break
        t = m.group(1)
    return t.lstrip("&")


def _line_of(n):
    try:
        return int(str(n.get("loc", "0")).split(":")[0])
    except ValueError:
        return 0


@rule("T-VAR-KEY-FRESH", floor=5,
      text="the table of variables is keyed by generated names (`<function>_<depth>_<name>`, `<function>_<parameter>`, `cctmp<n>`), and "
           "`HashMap::insert` replaces silently: every `self.variables.insert(K, ..)` of the declaration functions of compile.rs is preceded, in "
           "the same function, by a test of the WHOLE table for that key - `if self.variables.get(&K).is_some() { return Err(..) }` (or "
           "`contains_key`; itself under no other `if`), a renaming loop `while self.variables.get(&K).is_some() { K = .. }`, an enclosing `if self.variables.get(&K).is_none()`, "
           "or `if let Some(v) = self.variables.get(&K)` refusing a global - or K is minted from a counter that is stepped at once "
           "(`format!(\"cctmp{}\", self.literal_counter)`), or comes out of the sorted list of literals of one expression.  A test of the innermost "
           "scope only is not enough: two sibling blocks at the same depth make the same name, and the second declaration takes the bytes of the "
           "first (`{ const char *s = \"first\"; .. } { const char *s = \"other\"; .. }`)")
def t_var_key_fresh(facts, res, tier):
    def _under_if(x, par):
        # the test itself sits under no other condition (a test made for globals only is a test of part of the declarations)
        cur = x
        while id(cur) in par and par[id(cur)][0] is not None:
            p_, slot, _ = par[id(cur)]
            if p_.get("k") == "if" and slot in ("then", "else"):
                return True
            cur = p_
        return False

    n = 0
    for fn in facts.fns:
        if not fn["file"].endswith("/compile.rs") or fn.get("test"):
            continue
        nodes = [x for x in walk(fn["body"]) if isinstance(x, dict)]
        inserts = [x for x in nodes if x.get("k") == "mcall" and x["method"] == "insert" and expr_text(x["recv"]).replace(" ", "") == "self.variables" and x.get("args")]
        if not inserts:
            continue
        seen = {}
        par = _parents(fn["body"])
        for ins in inserts:
            K = _key_text(ins["args"][0])
            n += 1
            seen[K] = seen.get(K, 0) + 1
            key = "T-VAR-KEY-FRESH:%s:%s" % (fn["name"], K) + ("#%d" % seen[K] if seen[K] > 1 else "")
            tests = ("self.variables.get(%s).is_some()" % K, "self.variables.contains_key(%s)" % K)
            how = None
            line = _line_of(ins)
            # minted from a counter stepped in the same block (looked at first: such a `let` shadows any outer variable of that name)
            for b in nodes:
                if b.get("k") != "block" or not any(y is ins for y in walk(b)):
                    continue
                st = b.get("stmts", [])
                for i, s in enumerate(st):
                    if s.get("k") == "let" and pat_text(s["pat"]).replace(" ", "").replace("mut", "") == K and s.get("init") is not None and _line_of(s) <= line:
                        it = expr_text(s["init"]).replace(" ", "")
                        m = re.search(r"self\.(\w*counter)", it)
                        if m and it.startswith("format!") and any(
                                e.get("k") == "assignop" and expr_text(e["l"]).replace(" ", "") == "self." + m.group(1) for e in st[i + 1:i + 3]):
                            how = "minted from self.%s, stepped at once" % m.group(1)
            for x in ([] if how else nodes):
                if _line_of(x) > line:
                    continue
                if x.get("k") == "if" and x["cond"].get("k") != "letcond" and expr_text(x["cond"]).replace(" ", "").replace("&", "") in tests and _diverges_err(x["then"]) and not _under_if(x, par):
                    how = "refused when the table has the key"
                elif x.get("k") == "while" and expr_text(x["cond"]).replace(" ", "").replace("&", "") in tests and any(
                        y.get("k") == "assign" and expr_text(y["l"]).replace(" ", "") == K for y in walk(x["body"])):
                    how = "renamed until the table has no such key"
                elif x.get("k") == "if" and x["cond"].get("k") == "letcond" and expr_text(x["cond"]["e"]).replace(" ", "").replace("&", "") == "self.variables.get(%s)" % K \
                        and pat_text(x["cond"]["pat"]).replace(" ", "").startswith("Some(") and any(_diverges_err(y["then"]) for y in walk(x["then"]) if y.get("k") == "if"):
                    how = "refused when the key is that of a global (a parameter may be declared again by the definition that follows a prototype)"
                elif x.get("k") == "if" and expr_text(x["cond"]).replace(" ", "").replace("&", "") == "self.variables.get(%s).is_none()" % K and any(y is ins for y in walk(x["then"])):
                    how = "inserted only when the table has no such key"
                if how:
                    break
            if not how:
                if re.fullmatch(r"\w+\.0", K):
                    # the key of a sorted list of (name, literal) pairs: the names were minted by the expression parser
                    lst = K.split(".")[0]
                    for x in nodes:
                        if x.get("k") == "for" and pat_text(x["pat"]).replace(" ", "") == lst and any(y is ins for y in walk(x["body"])):
                            how = "one of the literals collected while parsing one expression (names minted there)"
            res.inst(key, True, {"key": K, "how": how, "where": facts.where(fn, ins)})
            if not how:
                res.fail(key, facts.where(fn, ins),
                         "%s inserts `%s` into the table of variables without having looked for that key in the whole table first: generated names repeat "
                         "(sibling blocks at the same depth, a global spelt like a generated name), and the insert silently replaces the earlier variable" % (fn["name"], K))
    if n == 0:
        raise AnchorMissing("compile.rs: no `self.variables.insert(..)` found")


@rule("T-PRATT-ERR-AT-OP", floor=3,
      text="an error raised by a Pratt callback that receives the operator (`|lhs, op, rhs|` of map_infix, `|op, rhs|` of map_prefix, `|lhs, op|` of "
           "map_postfix in compile.rs) is located at that operator: the position handed to syntax_error / compiler_error is `op.as_span()..` or a "
           "local of the callback computed from `op`; a helper closure defined OUTSIDE the callback and called in it raises no error with a "
           "position of its own (it cannot know the operator).  The expression may span many lines; the first token of the expression is not "
           "where `1 << 40` overflows")
def t_pratt_err_at_op(facts, res, tier):
    n = 0
    for fn in facts.fns:
        if not fn["file"].endswith("/compile.rs") or fn.get("test"):
            continue
        calls = [x for x in walk(fn["body"]) if isinstance(x, dict) and x.get("k") == "mcall" and x["method"] in ("map_infix", "map_prefix", "map_postfix")
                 and x.get("args") and x["args"][0].get("k") == "closure"]
        if not calls:
            continue
        # closures bound to a name at function level
        named = {}
        for x in walk(fn["body"]):
            if isinstance(x, dict) and x.get("k") == "let" and x.get("init") is not None and x["init"].get("k") == "closure" and x.get("pat", {}).get("k") == "ident":
                named.setdefault(x["pat"]["name"], []).append(x)
        for c in calls:
            clo = c["args"][0]
            params = [pat_text(p).replace(" ", "") if isinstance(p, dict) else str(p) for p in clo.get("params", [])]
            if "op" not in params:
                raise AnchorMissing("%s: the %s callback has no parameter named `op` (%s)" % (fn["name"], c["method"], params))
            inner = [x for x in walk(clo["body"]) if isinstance(x, dict)]
            inner_ids = {id(x) for x in inner}
            lets = {x["pat"]["name"]: x["init"] for x in inner if x.get("k") == "let" and x.get("init") is not None and x.get("pat", {}).get("k") == "ident"}
            for y in inner:
                if y.get("k") == "mcall" and y["method"] in ("syntax_error", "compiler_error") and len(y.get("args", [])) == 2:
                    loc = y["args"][1]
                    t = expr_text(loc).replace(" ", "")
                    ok = t.startswith("op.as_span()") or (loc.get("k") == "path" and len(loc["segs"]) == 1 and loc["segs"][0] in lets
                                                           and "op.as_span()" in expr_text(lets[loc["segs"][0]]).replace(" ", ""))
                    n += 1
                    key = "T-PRATT-ERR-AT-OP:%s:%s:%s" % (fn["name"], c["method"], expr_text(y["args"][0]).strip('&"')[:40])
                    res.inst(key, True, {"position": t, "where": facts.where(fn, y)})
                    if not ok:
                        res.fail(key, facts.where(fn, y), "%s: the %s callback raises this error at `%s`, which is not computed from the operator it received" % (fn["name"], c["method"], t))
                if y.get("k") == "call" and y["func"].get("k") == "path" and len(y["func"]["segs"]) == 1 and y["func"]["segs"][0] in named:
                    for d in named[y["func"]["segs"][0]]:
                        if id(d) in inner_ids:
                            continue
                        dparams = [pat_text(p).replace(" ", "").split(":")[0] for p in d["init"].get("params", []) if isinstance(p, dict)]
                        for z in walk(d["init"]["body"]):
                            if isinstance(z, dict) and z.get("k") == "mcall" and z["method"] in ("syntax_error", "compiler_error") and len(z.get("args", [])) == 2:
                                lt = expr_text(z["args"][1]).replace(" ", "")
                                key = "T-PRATT-ERR-AT-OP:%s:%s:helper:%s" % (fn["name"], c["method"], y["func"]["segs"][0])
                                n += 1
                                res.inst(key, True, {"position": lt, "helper_parameters": dparams, "where": facts.where(fn, z)})
                                if not any(re.search(r"\b%s\b" % re.escape(p), lt) for p in dparams):
                                    res.fail(key, facts.where(fn, z), "%s: the %s callback raises an error through `%s`, a closure defined outside it, at the position `%s` that closure "
                                             "captured: not the operator the callback received" % (fn["name"], c["method"], y["func"]["segs"][0], lt))
    if n == 0:
        raise AnchorMissing("compile.rs: no error raised in a Pratt callback found")


NZ_BRANCHES = {"BNE", "BEQ", "BMI", "BPL"}
NZ_SETTERS = {"LDA", "LDX", "LDY", "AND", "ORA", "EOR", "ADC", "SBC", "CMP", "CPX", "CPY", "INC", "DEC", "INX", "INY", "DEX", "DEY", "ASL", "LSR", "ROL", "ROR",
              "BIT", "TAX", "TAY", "TXA", "TYA", "PLA"}
BRANCH_HELPERS = {"generate_branch_instruction": "emits the branch(es) of a comparison; its callers emit the compare instruction and call it next (T-BRANCH checks the table it implements)",
                  "generate_branch_instruction_alt": "the same, for the alternative (operands swapped) form"}


def _asm_mnemonics(n):
    """mnemonics a `self.asm(M, ..)` call may emit (M may be `if c { A } else { B }`); None if n is not such a call"""
    n = _unwrap_try(n)
    if not (isinstance(n, dict) and n.get("k") == "mcall" and n["method"] == "asm" and expr_text(n["recv"]) == "self" and n.get("args")):
        return None
    return {x["segs"][-1] for x in walk(n["args"][0]) if isinstance(x, dict) and x.get("k") == "path" and len(x["segs"]) == 1 and x["segs"][0].isupper()}


@rule("T-BRANCH-FLAGS-KNOWN", floor=6,
      text="where a generator function emits a branch on the N/Z flags (BNE, BEQ, BMI, BPL) itself, the flags are those of the value it tests: going "
           "back from the branch through the statements of the enclosing blocks - past statements that emit nothing (assignments to the generator's "
           "fields, lets, refusals) and past other branches - the first thing found is an instruction this function emitted that sets N and Z "
           "(`self.asm(LDA|CMP|ORA|INC|..)`, or a match / if every surviving alternative of which ends with one), or the branch stands in the "
           "`then` part of `if flags_ok(&self.flags, <value>)`.  A value handed back by generate_expr / generate_assign guarantees nothing of the "
           "flags (a call result arrives in A with whatever the callee did last): `if (f() & 0x80)` lowered to `JSR f; BMI` tests the callee's last "
           "instruction.  The two helpers that emit the branches of a comparison right after their caller's compare are the stated boundary")
def t_branch_flags_known(facts, res, tier):
    n = 0
    for fn in genmodel.gen_fns(facts):
        if fn["name"] in BRANCH_HELPERS:
            res.note("T-BRANCH-FLAGS-KNOWN: %s is not examined: %s" % (fn["name"], BRANCH_HELPERS[fn["name"]]))
            continue
        sites = [x for x in walk(fn["body"]) if isinstance(x, dict) and (_asm_mnemonics(x) or set()) & NZ_BRANCHES and x.get("k") == "mcall"]
        if not sites:
            continue
        par = _parents(fn["body"])

        def branch_only(s):
            s = _unwrap_try(s)
            m = _asm_mnemonics(s)
            if m is not None:
                return bool(m) and m <= (NZ_BRANCHES | {"BCC", "BCS", "BVC", "BVS"})
            if isinstance(s, dict) and s.get("k") == "if":
                return branch_only(s["then"]) and (s.get("else") is None or branch_only(s["else"]))
            if isinstance(s, dict) and s.get("k") == "block":
                return bool(s.get("stmts")) and all(branch_only(x) or neutral(x) for x in s["stmts"])
            return False

        def neutral(s):
            s = _unwrap_try(s)
            if not isinstance(s, dict):
                return True
            k = s.get("k")
            if k == "let":
                return not any(isinstance(x, dict) and x.get("k") == "mcall" and expr_text(x["recv"]) == "self" for x in walk(s.get("init") or {}))
            if k in ("assign", "assignop"):
                return expr_text(s["l"]).replace(" ", "").startswith("self.") and not any(
                    isinstance(x, dict) and x.get("k") == "mcall" and expr_text(x["recv"]) == "self" for x in walk(s["r"]))
            if k == "if" and s.get("else") is None and _diverges_err(s["then"]):
                return True
            return branch_only(s)

        def sets_flags(s):
            s = _unwrap_try(s)
            if not isinstance(s, dict):
                return False
            m = _asm_mnemonics(s)
            if m is not None:
                return bool(m) and m <= NZ_SETTERS
            k = s.get("k")
            if k == "block":
                for x in reversed(s.get("stmts", [])):
                    if neutral(x):
                        continue
                    return sets_flags(x)
                return False
            if k == "match":
                alive = [a["body"] for a in s["arms"] if not _diverges_err(a["body"]) and not _ends_in_return(a["body"])]
                return bool(alive) and all(sets_flags(b) for b in alive)
            if k == "if":
                alts = [s["then"]] + ([s["else"]] if s.get("else") is not None else [None])
                alive = [b for b in alts if b is None or not (_diverges_err(b) or _ends_in_return(b))]
                return bool(alive) and all(b is not None and sets_flags(b) for b in alive)
            return False

        def _ends_in_return(b):
            b = _unwrap_try(b)
            if isinstance(b, dict) and b.get("k") == "block" and b.get("stmts"):
                return _ends_in_return(b["stmts"][-1])
            return isinstance(b, dict) and b.get("k") == "return"

        seen = {}
        for site in sites:
            cur = site
            why = None
            found = None
            while id(cur) in par and par[id(cur)][0] is not None and found is None:
                p, slot, idx = par[id(cur)]
                if p.get("k") == "block" and slot == "stmts":
                    for j in range(idx - 1, -1, -1):
                        s = p["stmts"][j]
                        if neutral(s):
                            continue
                        found = sets_flags(s)
                        why = "follows `%s`" % expr_text(_unwrap_try(s))[:60]
                        break
                elif p.get("k") == "if" and slot == "then" and re.match(r"^flags_ok\(&?self\.flags,", expr_text(p["cond"]).replace(" ", "")):
                    found = True
                    why = "under `%s`" % expr_text(p["cond"])
                cur = p
            mn = "/".join(sorted(_asm_mnemonics(site) & NZ_BRANCHES))
            seen[mn] = seen.get(mn, 0) + 1
            key = "T-BRANCH-FLAGS-KNOWN:%s:%s#%d" % (fn["name"], mn, seen[mn])
            n += 1
            res.inst(key, True, {"function": fn["name"], "branch": mn, "flags_from": why, "where": facts.where(fn, site)})
            if not found:
                res.fail("T-BRANCH-FLAGS-KNOWN:%s:%s" % (fn["name"], mn), facts.where(fn, site),
                         "%s emits %s where the flags are not known to be those of the value tested: %s" % (
                             fn["name"], mn, ("the statement before it (`%s`) is not an instruction of this function that sets N/Z on every path" % why[9:-1]) if why else
                             "no instruction that sets N/Z is emitted before it in this function and it is not under `if flags_ok(&self.flags, ..)`"))
    if n == 0:
        raise AnchorMissing("no branch on N/Z emitted by a generator function outside the comparison helpers")


@rule("T-COND-OP-VERBATIM", floor=1,
      text="which comparison a condition makes is decided by the source: generate_simple_condition hands the operator it matched in the expression "
           "(`op` of the BinOp pattern) to generate_condition_ex as it is, with the value of `lhs` on the left and the value of `rhs` on the right.  "
           "Every rewriting of a comparison (swapping the operands, <= into < of the next constant, signed forms) is made inside "
           "generate_condition_ex, where T-CMPXFORM checks each one against the truth table of the operator for signed and unsigned operands; a "
           "rewrite made before the hand-over is checked by nothing (`x < 1` lowered as `x == 0` is wrong for a signed char, and `1 > x` keeps "
           "the other lowering)")
def t_cond_op_verbatim(facts, res, tier):
    from scopes import scoped
    fn = next((f for f in genmodel.gen_fns(facts) if f["name"] == "generate_simple_condition"), None)
    if fn is None:
        raise AnchorMissing("generate_simple_condition not found")
    lets = {}
    for x in walk(fn["body"]):
        if isinstance(x, dict) and x.get("k") == "let" and x.get("init") is not None and x.get("pat", {}).get("k") == "ident":
            lets.setdefault(x["pat"]["name"], []).append(expr_text(x["init"]).replace(" ", ""))
    n = 0
    for node, env, doms in scoped(fn):
        if not (_self_call(node, ("generate_condition_ex",)) and len(node.get("args", [])) >= 3):
            continue
        arms = [d for d in doms if d[0] == "arm" and re.search(r"\bBinOp\b", pat_text(d[2])) and re.search(r"\bop\b", pat_text(d[2]))]
        if not arms:
            continue
        n += 1
        a0, a1, a2 = [expr_text(a).replace(" ", "").lstrip("&*") for a in node["args"][:3]]
        key = "T-COND-OP-VERBATIM:generate_simple_condition:%s,%s,%s" % (a0, a1, a2)
        left_ok = a0 in lets and all(re.search(r"\blhs\b", t) and not re.search(r"\brhs\b", t) for t in lets[a0])
        right_ok = a2 in lets and all(re.search(r"\brhs\b", t) and not re.search(r"\blhs\b", t) for t in lets[a2])
        res.inst(key, True, {"left": a0, "operator": a1, "right": a2, "where": facts.where(fn, node)})
        if a1 != "op" or not left_ok or not right_ok:
            res.fail(key, facts.where(fn, node), "generate_simple_condition hands generate_condition_ex the comparison (%s, %s, %s) where the expression has (value of lhs, op, value of rhs): "
                     "a comparison rewritten before the hand-over is not among those T-CMPXFORM verifies" % (a0, a1, a2))
    if n == 0:
        raise AnchorMissing("generate_simple_condition: no call of generate_condition_ex under the BinOp arm")


# ----------------------------------------------------------------------------- keywords end at a word boundary

KW_BUILTIN_ID = {"ASCII_ALPHA", "ASCII_ALPHANUMERIC", "ASCII_DIGIT", "ASCII_HEX_DIGIT", "ASCII_OCT_DIGIT", "ASCII_NONZERO_DIGIT", "ASCII_ALPHA_LOWER", "ASCII_ALPHA_UPPER", "ANY", "ASCII"}
KW_BUILTIN_OTHER = {"NEWLINE", "SOI", "EOI", "WHITESPACE", "COMMENT", "DROP", "PEEK", "POP", "PEEK_ALL", "POP_ALL"}
KEYWORD_BOUNDARY_EXCEPTIONS = {
    ("bank", "bank"): "`bank1`: the number is part of the spelling of the qualifier (bank = ${ \"bank\" ~ bank_number })",
}


def _kw_flatten(e):
    if isinstance(e, dict) and e.get("k") == "seq":
        return _kw_flatten(e["a"]) + _kw_flatten(e["b"])
    return [e]


def _kw_alts(x):
    return _kw_alts(x["a"]) + _kw_alts(x["b"]) if isinstance(x, dict) and x.get("k") == "choice" else [x]


def _kw_first_id(rules, e, seen=()):
    """(may begin with a character of an identifier, may match the empty string)"""
    if not isinstance(e, dict):
        return (False, True)
    k = e.get("k")
    if k in ("str", "insens"):
        return (bool(e["v"]) and (e["v"][0].isalnum() or e["v"][0] == "_"), e["v"] == "")
    if k == "range":
        return (True, False)
    if k == "ident":
        v = e["v"]
        if v in KW_BUILTIN_ID:
            return (True, False)
        if v in KW_BUILTIN_OTHER:
            return (False, v in ("SOI", "EOI", "DROP"))
        if v in seen or v not in rules:
            return (False, False)
        return _kw_first_id(rules, rules[v]["expr"], seen + (v,))
    if k == "seq":
        any_id = False
        for it in _kw_flatten(e):
            f, nl = _kw_first_id(rules, it, seen)
            any_id |= f
            if not nl:
                return (any_id, False)
        return (any_id, True)
    if k == "choice":
        a = _kw_first_id(rules, e["a"], seen)
        b = _kw_first_id(rules, e["b"], seen)
        return (a[0] or b[0], a[1] or b[1])
    if k in ("opt", "rep"):
        return (_kw_first_id(rules, e["e"], seen)[0], True)
    if k in ("negpred", "pospred"):
        return (False, True)
    if "e" in e:
        return _kw_first_id(rules, e["e"], seen)
    return (False, False)


def _kw_guard(rules, e):
    """keywords K such that `e` is `!R`, R an atomic rule of the form ("K" | ..) ~ (ASCII_ALPHANUMERIC | "_")"""
    if not (isinstance(e, dict) and e.get("k") == "negpred" and isinstance(e.get("e"), dict) and e["e"].get("k") == "ident"):
        return set()
    return _kw_guard_rule(rules, e["e"]["v"])


def _kw_guard_rule(rules, name):
    r = rules.get(name)
    if not r or r.get("ty") != "atomic":
        return set()
    its = _kw_flatten(r["expr"])
    if len(its) != 2:
        return set()
    cls = _kw_alts(its[1])
    if sorted((c.get("k"), c.get("v")) for c in cls if isinstance(c, dict)) != [("ident", "ASCII_ALPHANUMERIC"), ("str", "_")]:
        return set()
    kws = [a for a in _kw_alts(its[0])]
    if not all(isinstance(a, dict) and a.get("k") == "str" for a in kws):
        return set()
    return {a["v"] for a in kws}


def _kw_trailing(rules, e, seen=()):
    """({keyword: guarded}, may match the empty string): the keywords that may be the last characters `e` matched"""
    if not isinstance(e, dict):
        return ({}, True)
    k = e.get("k")
    if k in ("str", "insens"):
        v = e["v"]
        return ({v: False} if len(v) >= 2 and v.isalpha() else {}, v == "")
    if k == "ident":
        v = e["v"]
        if v in KW_BUILTIN_ID or v in KW_BUILTIN_OTHER:
            return ({}, v in ("SOI", "EOI"))
        if v in seen or v not in rules:
            return ({}, False)
        return _kw_trailing(rules, rules[v]["expr"], seen + (v,))
    if k == "seq":
        its = _kw_flatten(e)
        out = {}
        nullable = True
        for i in range(len(its) - 1, -1, -1):
            t, nl = _kw_trailing(rules, its[i], seen)
            guards = set()
            for pv in its[:i]:
                guards |= _kw_guard(rules, pv)
            for kw, g in t.items():
                out[kw] = out.get(kw, True) and (g or kw in guards)
            if not nl:
                nullable = False
                break
        return (out, nullable)
    if k == "choice":
        a = _kw_trailing(rules, e["a"], seen)
        b = _kw_trailing(rules, e["b"], seen)
        out = dict(a[0])
        for kw, g in b[0].items():
            out[kw] = out.get(kw, True) and g
        return (out, a[1] or b[1])
    if k in ("opt", "rep"):
        return (_kw_trailing(rules, e["e"], seen)[0], True)
    if k in ("negpred", "pospred"):
        return ({}, True)
    if "e" in e:
        return _kw_trailing(rules, e["e"], seen)
    return ({}, False)


def keyword_sites(rules):
    """(rule, keyword, guarded) for every place of the grammar where a keyword may be directly followed by something that can begin
    with a character of an identifier"""
    out = {}

    def visit(rname, e):
        if not isinstance(e, dict):
            return
        if e.get("k") == "seq":
            its = _kw_flatten(e)
            for i, it in enumerate(its[:-1]):
                kws, _ = _kw_trailing(rules, it)
                if not kws:
                    continue
                follow = False
                for nx in its[i + 1:]:
                    f, nl = _kw_first_id(rules, nx)
                    follow |= f
                    if not nl:
                        break
                if not follow:
                    continue
                guards = set()
                for pv in its[:i]:
                    guards |= _kw_guard(rules, pv)
                for kw, g in kws.items():
                    key = (rname, kw)
                    out[key] = out.get(key, True) and (g or kw in guards)
            for it in its:
                visit(rname, it)
            return
        for key in ("a", "b", "e"):
            if key in e:
                visit(rname, e[key])

    for name, r in sorted(rules.items()):
        if _kw_guard_rule(rules, name):
            continue
        visit(name, r["expr"])
    return out


@rule("T-KEYWORD-BOUNDARY", floor=10,
      text="a keyword of the grammar is a word: wherever a keyword literal (two letters or more; written in the rule or ending a rule it references) "
           "may be followed directly by something that can begin with a letter, a digit or `_`, the keyword is preceded in the same sequence by "
           "`!R`, R an atomic rule of the form `(\"k1\" | \"k2\" | ..) ~ (ASCII_ALPHANUMERIC | \"_\")` that names it - pest's implicit white space is "
           "optional, so without the look-ahead `elsewhere = 3;` after an if statement is `else where = 3;`, `returned = 3;` returns `ed = 3`, "
           "`sizeofy` is the size of y and `void interrupts_off()` defines the interrupt handler `s_off`.  Computed over the whole grammar (FIRST "
           "characters and trailing keywords through rule references), not a list of keywords")
def t_keyword_boundary(facts, res, tier):
    rules = facts.grammar_rules()
    sites = keyword_sites(rules)
    gfile = facts.grammars[0]["file"] if getattr(facts, "grammars", None) else "src/cc6502.pest"
    for (rname, kw), guarded in sorted(sites.items()):
        key = "T-KEYWORD-BOUNDARY:%s:%s" % (rname, kw)
        exc = KEYWORD_BOUNDARY_EXCEPTIONS.get((rname, kw))
        res.inst(key, True, {"rule": rname, "keyword": kw, "guarded": guarded, "exception": exc})
        if exc:
            res.note("T-KEYWORD-BOUNDARY exception %s:%s: %s" % (rname, kw, exc))
            continue
        if not guarded:
            res.fail(key, "%s:%s" % (facts.rel(gfile) if hasattr(facts, "rel") else gfile, rules[rname].get("line", 0)),
                     "in the rule `%s` the keyword `%s` may be followed directly by the first character of a name and no `!<keyword-in-name>` look-ahead "
                     "precedes it: a name that begins with `%s` is cut in two" % (rname, kw, kw))
