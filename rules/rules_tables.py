"""Table rules: operator precedence (C01/C10), branch selection (C01), comparison
transforms (C01/C15), long-branch repair (C03)."""
import json
import os

from astlib import AnchorMissing, expr_text, pat_text, walk, VERIF
from core import rule
from genmodel import (ISA, MN, BRANCHES, gen_fns, fn_paths, domain_of, is_error_exit, GEN_QUAL, GenWalker)
from walker import Walker, Const, EnumV, Sym, Fmt, Tup, Unknown, StructV, BinOp, Outcome

with open(os.path.join(VERIF, "ref", "c_operators.json")) as _fh:
    C_OPS = json.load(_fh)

# ------------------------------------------------------------------ Pratt tables


def pratt_tables(facts):
    """name -> list of levels; level = list of (affix, rule, assoc)."""
    fn = facts.fn("compile", "")
    tables = {}
    for n in walk(fn["body"]):
        if n.get("k") != "let" or "init" not in n or n["pat"].get("k") != "ident":
            continue
        chain = []
        e = n["init"]
        while e.get("k") == "mcall" and e["method"] == "op":
            chain.append(e["args"][0])
            e = e["recv"]
        if not chain or not (e.get("k") == "call" and expr_text(e["func"]).endswith("PrattParser::new")):
            continue
        chain.reverse()
        levels = []
        for arg in chain:
            ops = []
            stack = [arg]
            while stack:
                x = stack.pop()
                if x.get("k") == "binary" and x["op"] == "|":
                    stack.append(x["r"])
                    stack.append(x["l"])
                elif x.get("k") == "call":
                    ft = expr_text(x["func"])
                    affix = ft.split("::")[-1]
                    rule_name = expr_text(x["args"][0]).split("::")[-1]
                    assoc = expr_text(x["args"][1]).split("::")[-1] if len(x["args"]) > 1 else None
                    ops.append((affix, rule_name, assoc))
                else:
                    raise AnchorMissing("unreadable operator expression in Pratt table `%s`: %s" % (n["pat"]["name"], expr_text(x)))
            levels.append(ops)
        tables[n["pat"]["name"]] = (levels, n)
    return tables, fn


def ref_levels():
    lv = {}
    assoc = {}
    n = len(C_OPS["levels"])
    for i, l in enumerate(C_OPS["levels"]):
        for o in l["ops"]:
            lv[o] = n - i  # larger = binds tighter
            assoc[o] = l["assoc"]
    return lv, assoc


def c_name(rule_name):
    if rule_name in ("ternary_cond1", "ternary_cond2"):
        return "ternary"
    return rule_name


@rule("T-PREC", floor=3,
      text="the three Pratt tables (pratt, pratt_init_value, calculator) order every pair of binary operators as ISO C does, give each level C's associativity, and put every prefix operator above all infix ones and postfix above prefix (ref/c_operators.json); compared as an order, not as numbers")
def t_prec(facts, res, tier):
    tables, fn = pratt_tables(facts)
    lv, ref_assoc = ref_levels()
    for want in ("pratt", "pratt_init_value", "calculator"):
        if want not in tables:
            raise AnchorMissing("Pratt table `%s` not found in compile()" % want)
    for name in ("pratt", "pratt_init_value", "calculator"):
        levels, node = tables[name]
        pos = {}
        assoc = {}
        affix = {}
        for i, ops in enumerate(levels):
            for (af, r, a) in ops:
                if r in pos:
                    res.fail("T-PREC:%s:dup:%s" % (name, r), facts.where(fn, node), "operator %s registered twice in table %s" % (r, name))
                pos[r] = i
                assoc[r] = a
                affix[r] = af
        res.inst("T-PREC:%s" % name, True, {"table": name, "levels": [[r for (_, r, _) in ops] for ops in levels]})
        infix = [r for r in pos if affix[r] == "infix"]
        prefix = [r for r in pos if affix[r] == "prefix"]
        postfix = [r for r in pos if affix[r] == "postfix"]
        for i, a in enumerate(sorted(infix)):
            for b in sorted(infix)[i + 1:]:
                ca, cb = c_name(a), c_name(b)
                if ca not in lv or cb not in lv:
                    res.fail("T-PREC:%s:unknown:%s" % (name, a if ca not in lv else b), facts.where(fn, node), "operator not in the C reference table")
                    continue
                if ca == cb:
                    continue  # the two tokens of ?: are one C operator
                got = (pos[a] > pos[b]) - (pos[a] < pos[b])
                want = (lv[ca] > lv[cb]) - (lv[ca] < lv[cb])
                key = "T-PREC:%s:%s~%s" % (name, a, b)
                res.inst(key, True, None)
                if got != want:
                    rel = {1: "tighter than", 0: "at the same level as", -1: "looser than"}
                    res.fail(key, facts.where(fn, node), "table `%s`: `%s` binds %s `%s`; in C it binds %s it" % (name, a, rel[got], b, rel[want]))
        for r in sorted(infix):
            cr = c_name(r)
            if cr in ("comma",):
                continue  # associativity of the comma operator is not observable (left operand is discarded)
            key = "T-PREC:%s:assoc:%s" % (name, r)
            res.inst(key, True, None)
            want = ref_assoc.get(cr)
            if want and (assoc[r] or "").lower() != want:
                res.fail(key, facts.where(fn, node), "table `%s`: `%s` is %s-associative, C says %s" % (name, r, assoc[r], want))
        if infix and prefix:
            key = "T-PREC:%s:prefix-above-infix" % name
            res.inst(key)
            if min(pos[p] for p in prefix) <= max(pos[i] for i in infix):
                res.fail(key, facts.where(fn, node), "table `%s`: a prefix operator does not bind tighter than every infix operator" % name)
        if postfix and prefix:
            key = "T-PREC:%s:postfix-above-prefix" % name
            res.inst(key)
            if min(pos[p] for p in postfix) <= max(pos[i] for i in prefix):
                res.fail(key, facts.where(fn, node), "table `%s`: a postfix operator does not bind tighter than every prefix operator" % name)
    res.exhaustive = True


# ------------------------------------------------------------------ branch selection


def label_name(v):
    """Classify the label operand of an emitted branch: 'target' (the label parameter) or a local name."""
    if isinstance(v, EnumV) and v.variant == "Label" and v.payload:
        v = v.payload[0]
    if isinstance(v, Sym):
        return "param:" + v.key
    if isinstance(v, Fmt):
        return "local:" + v.template
    if isinstance(v, Const):
        return "const:%s" % v.v
    return "?" + repr(v)


def emitted_sequence(st):
    """[(mnemonic, labelname)] / [('label', name)] from a path's events."""
    seq = []
    for ev in st.events:
        if ev["kind"] == "asm":
            a = ev["args"]
            mn = a[0].variant if isinstance(a[0], EnumV) else None
            seq.append((mn, label_name(a[1]) if len(a) > 1 else None, ev))
        elif ev["kind"] in ("sasm", "sasm_protected"):
            a = ev["args"]
            seq.append((a[0].variant if isinstance(a[0], EnumV) else None, None, ev))
        elif ev["kind"] == "label":
            seq.append(("label", label_name(ev["args"][0]), ev))
    return seq


def taken(mn, N, Z, C):
    c = MN[mn]["taken_if"]
    v = {"N": N, "Z": Z, "C": C}[c[-1]]
    return (not v) if c.startswith("!") else bool(v)


def reaches_target(seq, target, N, Z, C):
    """Does control reach `target` when executing the branch sequence with these flags?
    Local labels must be defined later in the sequence."""
    i = 0
    while i < len(seq):
        mn, lab = seq[i][0], seq[i][1]
        if mn == "label":
            i += 1
            continue
        if mn == "JMP":
            if lab == target:
                return True
            # jump to local label
            j = [k for k in range(len(seq)) if seq[k][0] == "label" and seq[k][1] == lab]
            if not j:
                return None
            i = j[0] + 1
            continue
        if mn in BRANCHES:
            if taken(mn, N, Z, C):
                if lab == target:
                    return True
                j = [k for k in range(i + 1, len(seq)) if seq[k][0] == "label" and seq[k][1] == lab]
                if not j:
                    return None
                i = j[0] + 1
                continue
            i += 1
            continue
        return None
    return False


C_CMP = {
    "Eq": lambda a, b: a == b, "Neq": lambda a, b: a != b, "Lt": lambda a, b: a < b,
    "Lte": lambda a, b: a <= b, "Gt": lambda a, b: a > b, "Gte": lambda a, b: a >= b,
}


def s8(x):
    return x - 256 if x >= 128 else x


def branch_rows(facts, fname):
    fn = facts.fn(fname, GEN_QUAL)
    p_op = p_signed = p_label = None
    from walker import norm_ty
    for p in fn["params"]:
        t = norm_ty(p["ty"])
        if t == "Operation":
            p_op = p["name"]
        elif t == "bool":
            p_signed = p["name"]
        elif t == "str":
            p_label = p["name"]
    if not (p_op and p_signed and p_label):
        raise AnchorMissing("%s: expected (&Operation, bool, &str) parameters" % fname)
    rows = []
    for kind, value, st in fn_paths(facts, fn):
        ops = domain_of(st, Sym(p_op, "Operation"), facts)
        sg = domain_of(st, Sym(p_signed, "bool"), facts)
        rows.append({"ops": ops, "signed": sg, "seq": emitted_sequence(st), "err": is_error_exit(value), "state": st})
    return fn, rows, "param:" + p_label


@rule("T-BRANCH", floor=24,
      text="for each of the 6 comparisons x {signed, unsigned}, the branch sequence emitted after CMP (generate_branch_instruction) reaches the label exactly when the C comparison of the two bytes holds, for all 256x256 operand pairs with N/Z/C as the 6502 defines them for CMP; and the sequence emitted without CMP (generate_branch_instruction_alt: N/Z of the value itself, carry unusable) does so for all 256 values against 0")
def t_branch(facts, res, tier):
    cmp_ops = ["Eq", "Neq", "Lt", "Lte", "Gt", "Gte"]
    for fname, alt in (("generate_branch_instruction", False), ("generate_branch_instruction_alt", True)):
        fn, rows, target = branch_rows(facts, fname)
        for op in cmp_ops:
            for signed in (True, False):
                key = "T-BRANCH:%s:%s:%s" % ("alt" if alt else "cmp", op, "signed" if signed else "unsigned")
                cands = [r for r in rows if (r["ops"] is None or op in r["ops"]) and (r["signed"] is None or signed in r["signed"])]
                if len(cands) != 1:
                    res.inst(key)
                    res.fail(key, facts.where(fn), "expected exactly one path of %s for (%s, signed=%s), found %d" % (fname, op, signed, len(cands)))
                    continue
                r = cands[0]
                seq = r["seq"]
                res.inst(key, True, {"table": fname, "op": op, "signed": signed, "sequence": [(m, l) for m, l, _ in seq]})
                if r["err"]:
                    res.fail(key, facts.where(fn), "%s rejects the comparison %s" % (fname, op))
                    continue
                if alt and any(m in ("BCC", "BCS") for m, _, _ in seq):
                    res.fail(key, facts.where(fn), "%s uses the carry flag, which no CMP has set on this path" % fname)
                    continue
                witness = None
                bad = 0
                undefined = False
                space = [(a, 0) for a in range(256)] if alt else [(a, b) for a in range(256) for b in range(256)]
                # flags depend only on (a-b) mod 256, a==b, a>=b : evaluate through the 8 flag states for speed
                cache = {}
                for a, b in space:
                    if alt:
                        N, Z, C = a >> 7, int(a == 0), 0
                    else:
                        t = (a - b) & 0xFF
                        N, Z, C = t >> 7, int(a == b), int(a >= b)
                    fk = (N, Z, C)
                    if fk not in cache:
                        cache[fk] = reaches_target(seq, target, N, Z, C)
                    got = cache[fk]
                    if got is None:
                        undefined = True
                        break
                    want = C_CMP[op](s8(a), s8(b)) if signed else C_CMP[op](a, b)
                    if got != want:
                        bad += 1
                        if witness is None:
                            witness = (a, b, got, want)
                if undefined:
                    res.fail(key, facts.where(fn), "emitted sequence branches to a label that is not defined later in the sequence: %s" % [(m, l) for m, l, _ in seq])
                elif witness:
                    a, b, got, want = witness
                    va, vb = (s8(a), s8(b)) if signed else (a, b)
                    res.fail(key, facts.where(fn), "%s, %s %s: sequence %s %s the label for %d %s %d (C: %s); wrong for %d of %d operand pairs" % (
                        fname, "signed" if signed else "unsigned", op, [m for m, _, _ in seq if m != "label"], "reaches" if got else "does not reach",
                        va, {"Eq": "==", "Neq": "!=", "Lt": "<", "Lte": "<=", "Gt": ">", "Gte": ">="}[op], vb, want, bad, len(space)),
                        {"witness": [va, vb], "wrong": bad, "of": len(space)})
    res.exhaustive = True


# ------------------------------------------------------------------ comparison transforms


def truth3(op, x, y):
    return C_CMP[op](x, y)


ORDERINGS = [(0, 1), (1, 1), (1, 0)]
COMMUTATIVE = {"Add", "And", "Or", "Xor", "Mul"}


def enum_maps(facts, fn, enum="Operation"):
    """All `match x { Enum::A => Enum::B, .. }` maps in fn: list of (node, {A: B})."""
    out = []
    variants = set(facts.enum_variants(enum))
    for m in walk(fn["body"]):
        if m.get("k") != "match":
            continue
        table = {}
        ok = True
        for arm in m["arms"]:
            p = arm["pat"]
            b = arm["body"]
            if p.get("k") == "wild":
                continue
            if p.get("k") != "path" or p["segs"][-1] not in variants:
                ok = False
                break
            if b.get("k") == "path" and b["segs"][-1] in variants and (len(b["segs"]) == 1 or b["segs"][-2] == enum):
                table[p["segs"][-1]] = b["segs"][-1]
            elif b.get("k") == "macro" and b["name"] in ("unreachable", "panic"):
                continue
            else:
                ok = False
                break
        if ok and len(table) >= 2:
            out.append((m, table))
    return out


@rule("T-CMPXFORM", floor=10,
      text="in generate_condition_ex, on every path, the comparison finally applied to (left, right) is equivalent for all three orderings of two values to `op(l, r) XOR negate` (covers the negate map, the operand-switch map and the swap decision together); the inversion map of check_branches is a negation; generate_arithm swaps operands only for commutative operations")
def t_cmpxform(facts, res, tier):
    fn = facts.fn("generate_condition_ex", GEN_QUAL)
    from walker import norm_ty
    pl = [p["name"] for p in fn["params"] if norm_ty(p["ty"]) == "ExprType"]
    pop = [p["name"] for p in fn["params"] if norm_ty(p["ty"]) == "Operation"]
    pneg = [p["name"] for p in fn["params"] if norm_ty(p["ty"]) == "bool"]
    if len(pl) != 2 or len(pop) != 1 or len(pneg) != 1:
        raise AnchorMissing("generate_condition_ex: expected two &ExprType, one &Operation and one bool parameter")
    l, r = pl
    maps = enum_maps(facts, fn)
    if len(maps) < 2:
        raise AnchorMissing("generate_condition_ex: negate/switch Operation maps not found")
    cmp_ops = ["Eq", "Neq", "Lt", "Lte", "Gt", "Gte"]
    # locate the variables holding the final operator and operands: the last let bound to a value derived from the maps
    seen = set()
    n_paths = 0
    for kind, value, st in fn_paths(facts, fn):
        env = st.env
        if "operator" not in env or "left" not in env or "right" not in env:
            continue
        n_paths += 1
        lv, rv, ov = env["left"], env["right"], env["operator"]
        if not (isinstance(lv, Sym) and isinstance(rv, Sym)):
            continue
        if {lv.key, rv.key} != {l, r}:
            continue
        swapped = lv.key == r
        negs = domain_of(st, Sym(pneg[0], "bool"), facts) or {True, False}
        ops = (domain_of(st, Sym(pop[0], "Operation"), facts) or set(cmp_ops)) & set(cmp_ops)
        for neg in sorted(negs):
            for op in sorted(ops):
                if isinstance(ov, EnumV):
                    final = ov.variant
                elif isinstance(ov, Sym) and ov.key == pop[0]:
                    final = op
                else:
                    continue
                key = "T-CMPXFORM:cond_ex:%s:%s:%s" % (op, "negate" if neg else "plain", "swapped" if swapped else "direct")
                if key in seen:
                    continue
                seen.add(key)
                res.inst(key, True, {"op": op, "negate": neg, "operands_swapped": swapped, "final_operator": final})
                if final not in C_CMP:
                    res.fail(key, facts.where(fn), "final operator %s is not a comparison" % final)
                    continue
                for (a, b) in ORDERINGS:
                    want = truth3(op, a, b) != neg
                    got = truth3(final, b, a) if swapped else truth3(final, a, b)
                    if want != got:
                        res.fail(key, facts.where(fn), "generate_condition_ex: for op=%s negate=%s (operands %s) the comparison applied is %s, which differs from the requested one when l %s r" % (
                            op, neg, "swapped" if swapped else "in order", final, "<" if a < b else ("==" if a == b else ">")))
                        break
    if n_paths == 0:
        raise AnchorMissing("generate_condition_ex: no path binds `left`, `right` and `operator`")
    # every hand-off of the comparison (to the 16-bit comparison and to the branch emitters) passes an
    # operator that, applied to the operands handed over, still means `op(l, r) XOR negate`
    handoff = {}
    for cname in ("generate_condition_16bits", "generate_branch_instruction", "generate_branch_instruction_alt"):
        cf = facts.fn(cname, GEN_QUAL)
        ps = [p for p in cf["params"] if p["name"] != "self"]
        handoff[cname] = ([i for i, p in enumerate(ps) if norm_ty(p["ty"]) == "Operation"], [i for i, p in enumerate(ps) if norm_ty(p["ty"]) == "ExprType"])
    seen2 = set()
    for kind, value, st in fn_paths(facts, fn):
        env = st.env
        lv, rv = env.get("left"), env.get("right")
        if not (isinstance(lv, Sym) and isinstance(rv, Sym)) or {lv.key, rv.key} != {l, r}:
            continue
        negs = domain_of(st, Sym(pneg[0], "bool"), facts) or {True, False}
        ops = (domain_of(st, Sym(pop[0], "Operation"), facts) or set(cmp_ops)) & set(cmp_ops)
        for e in st.events:
            if e["kind"] != "call" or e["callee"] not in handoff:
                continue
            oi, ei = handoff[e["callee"]]
            if not oi or oi[0] >= len(e["args"]):
                continue
            xv = e["args"][oi[0]]
            # operands handed over: explicit for the 16-bit comparison, (left, right) for the branch emitters
            if len(ei) >= 2:
                a0, a1 = e["args"][ei[0]], e["args"][ei[1]]
                if not (isinstance(a0, Sym) and isinstance(a1, Sym) and {a0.key, a1.key} == {l, r}):
                    continue
                swapped = a0.key == r
            else:
                swapped = lv.key == r
            for neg in sorted(negs):
                for op in sorted(ops):
                    if isinstance(xv, EnumV):
                        final = xv.variant
                    elif isinstance(xv, Sym) and xv.key == pop[0]:
                        final = op
                    else:
                        continue
                    if final not in C_CMP:
                        continue
                    key = "T-CMPXFORM:handoff:%s:%s:%s:%s" % (e["callee"], op, "negate" if neg else "plain", "swapped" if swapped else "direct")
                    bad = False
                    for (a, b) in ORDERINGS:
                        want = truth3(op, a, b) != neg
                        got = truth3(final, b, a) if swapped else truth3(final, a, b)
                        if want != got:
                            bad = True
                    if key not in seen2:
                        seen2.add(key)
                        res.inst(key, True, {"callee": e["callee"], "op": op, "negate": neg, "operands_swapped": swapped, "operator_passed": final})
                    if bad and key + ":bad" not in seen2:
                        seen2.add(key + ":bad")
                        res.fail(key, facts.where(fn, e["node"]), "generate_condition_ex hands the comparison to %s with operator %s while the operands are %s: for op=%s negate=%s that is not the requested comparison (the operator passed must be the one computed for the swapped operands)" % (
                            e["callee"], final, "swapped" if swapped else "in order", op, neg))
    # the function starting again with a register copy of `left` (TXA / TYA, then A in its place): the comparison it asks
    # itself for - operator', (copy of left, other operand), negate' - must still mean `op(l, r) XOR negate`
    ps_self = [p for p in fn["params"] if p["name"] != "self"]
    ei = [i for i, p in enumerate(ps_self) if norm_ty(p["ty"]) == "ExprType"]
    oi = [i for i, p in enumerate(ps_self) if norm_ty(p["ty"]) == "Operation"]
    ni = [i for i, p in enumerate(ps_self) if norm_ty(p["ty"]) == "bool"]
    seen3 = set()
    for kind, value, st in fn_paths(facts, fn):
        env = st.env
        lv, rv = env.get("left"), env.get("right")
        if not (isinstance(lv, Sym) and isinstance(rv, Sym)) or {lv.key, rv.key} != {l, r}:
            continue
        negs = domain_of(st, Sym(pneg[0], "bool"), facts) or {True, False}
        ops = (domain_of(st, Sym(pop[0], "Operation"), facts) or set(cmp_ops)) & set(cmp_ops)
        for e in st.events:
            if e["kind"] != "call" or e["callee"] != fn["name"] or len(e["args"]) <= max(ei + oi + ni):
                continue
            a0, a1, xv, nv = e["args"][ei[0]], e["args"][ei[1]], e["args"][oi[0]], e["args"][ni[0]]
            syms = [a for a in (a0, a1) if isinstance(a, Sym) and a.key in (l, r)]
            if len(syms) == 2:
                first, second = a0.key, a1.key
            elif len(syms) == 1:
                # the other argument is a value built on the spot: the copy of `left`
                first, second = (lv.key, a1.key) if syms[0] is a1 else (a0.key, lv.key)
            else:
                continue
            for neg in sorted(negs):
                if isinstance(nv, Const):
                    neg2 = bool(nv.v)
                elif isinstance(nv, Sym) and nv.key == pneg[0]:
                    neg2 = neg
                else:
                    continue
                for op in sorted(ops):
                    if isinstance(xv, EnumV):
                        final = xv.variant
                    elif isinstance(xv, Sym) and xv.key == pop[0]:
                        final = op
                    else:
                        continue
                    if final not in C_CMP:
                        continue
                    key = "T-CMPXFORM:restart:%s:%s:%s" % (op, "negate" if neg else "plain", "swapped" if lv.key == r else "direct")
                    bad = first == second
                    for (a, b) in ORDERINGS:
                        val = {l: a, r: b}
                        want = truth3(op, a, b) != neg
                        got = truth3(final, val[first], val[second]) != neg2
                        if want != got:
                            bad = True
                    if key not in seen3:
                        seen3.add(key)
                        res.inst(key, True, {"op": op, "negate": neg, "operands_swapped": lv.key == r, "restarts_with": [final, first, second, neg2]})
                    if bad and key + ":bad" not in seen3:
                        seen3.add(key + ":bad")
                        res.fail(key, facts.where(fn, e["node"]), "generate_condition_ex starts again with a register copy of `%s` and asks for %s(%s, %s)%s: for op=%s negate=%s with the operands %s that is not the requested comparison%s" % (
                            lv.key, final, first, second, " negated" if neg2 else "", op, neg, "switched" if lv.key == r else "in order", " (an operand is compared with itself)" if first == second else ""))
    # check_branches inversion map
    cb = facts.fn("check_branches", "AssemblyCode")
    cmaps = enum_maps(facts, cb)
    if len(cmaps) != 1:
        raise AnchorMissing("check_branches: expected exactly one Operation->Operation map, found %d" % len(cmaps))
    m, table = cmaps[0]
    for op in cmp_ops:
        key = "T-CMPXFORM:check_branches:negate:%s" % op
        res.inst(key, True, {"op": op, "maps_to": table.get(op)})
        t = table.get(op)
        if t is None:
            res.fail(key, facts.where(cb, m), "inversion map has no entry for %s" % op)
            continue
        for (a, b) in ORDERINGS:
            if truth3(t, a, b) != (not truth3(op, a, b)):
                res.fail(key, facts.where(cb, m), "check_branches inverts %s to %s, which is not its negation" % (op, t))
                break
    # generate_arithm operand swap
    ga = facts.fn("generate_arithm", GEN_QUAL)
    gl = [p["name"] for p in ga["params"] if norm_ty(p["ty"]) == "ExprType"]
    gop = [p["name"] for p in ga["params"] if norm_ty(p["ty"]) == "Operation"]
    if len(gl) != 2 or len(gop) != 1:
        raise AnchorMissing("generate_arithm: expected two &ExprType and one &Operation parameter")
    allops = set(facts.enum_variants("Operation"))
    swapped_ops = set()
    direct_ops = set()
    for kind, value, st in fn_paths(facts, ga):
        env = st.env
        lv, rv = env.get("left"), env.get("right")
        if not (isinstance(lv, Sym) and isinstance(rv, Sym)) or {lv.key, rv.key} != set(gl):
            continue
        ops = domain_of(st, Sym(gop[0], "Operation"), facts) or allops
        if lv.key == gl[1]:
            swapped_ops |= ops
        else:
            direct_ops |= ops
    if not swapped_ops and not direct_ops:
        raise AnchorMissing("generate_arithm: no path binds `left`/`right` to the parameters")
    arith = {"Add", "Sub", "And", "Or", "Xor", "Mul", "Div"}
    for op in sorted(arith):
        key = "T-CMPXFORM:arithm-swap:%s" % op
        res.inst(key, True, {"op": op, "may_swap": op in swapped_ops})
        if op in swapped_ops and op not in COMMUTATIVE:
            res.fail(key, facts.where(ga), "generate_arithm may swap the operands of the non-commutative operation %s" % op)
    res.exhaustive = True


# ------------------------------------------------------------------ long-branch repair


def find_repair_block(fn):
    """The `if repair { .. }` block of check_branches: the if whose then-branch pushes a JMP."""
    best = None
    for n in walk(fn["body"]):
        if n.get("k") == "if" and n["cond"].get("k") == "path":
            txt = expr_text(n["then"])
            if "AsmMnemonic::JMP" in txt and "split_off" in txt:
                best = n
    if best is None:
        raise AnchorMissing("check_branches: repair block (if <flag> { .. split_off .. JMP .. }) not found")
    return best


def repair_paths(facts):
    fn = facts.fn("check_branches", "AssemblyCode")
    blk = find_repair_block(fn)

    def hook(w, st, node, name, recv, args):
        if node.get("k") == "mcall" and name == "push" and expr_text(node["recv"]) == "self.code":
            st.events.append({"kind": "push", "args": list(args), "node": node})
            return Unknown("()")
        if node.get("k") == "mcall" and name in ("split_off", "truncate", "append") and expr_text(node["recv"]).startswith("self.code"):
            st.events.append({"kind": name, "args": list(args), "node": node})
            return Unknown(name)
        if node.get("k") == "mcall" and name == "get" and expr_text(node["recv"]) == "self.code":
            return Sym("next:" + expr_text(node["args"][0]), "Option < AsmLine >")
        return None

    w = Walker(facts, fn, hooks={"on_call": hook}, self_ty="AssemblyCode")
    st0 = w.init.copy()
    outs = w.eval(blk["then"], st0)
    return fn, blk, [o for o in outs if o.kind in ("val", "ret")]


def pushed_seq(st):
    seq = []
    for ev in st.events:
        if ev["kind"] != "push":
            continue
        v = ev["args"][0]
        if isinstance(v, EnumV) and v.variant == "Instruction" and v.payload and isinstance(v.payload[0], StructV):
            f = v.payload[0].fields
            mn = f.get("mnemonic")
            seq.append((mn.variant if isinstance(mn, EnumV) else "?", lb_label(f.get("dasm_operand")), ev))
        elif isinstance(v, EnumV) and v.variant == "Label":
            seq.append(("label", lb_label(v.payload[0]), ev))
        else:
            seq.append(("?", repr(v), ev))
    return seq


def lb_label(v):
    if isinstance(v, Fmt):
        return "local:" + v.template
    if isinstance(v, Sym):
        if v.key.endswith(".dasm_operand"):
            return "target"
        return "sym:" + v.key
    return repr(v)


@rule("T-LB-EQUIV", floor=8,
      text="for each branch kind check_branches can repair (BEQ BNE BCC BCS BMI BPL and the BCC+BEQ / BMI+BEQ pairs), the replacement (inverted branches to .fix/.fixup, JMP target, labels) reaches the original target for exactly the same of the 8 (N,Z,C) states as the original did, and removes exactly the instructions it replaces")
def t_lb_equiv(facts, res, tier):
    fn, blk, outs = repair_paths(facts)
    kinds_seen = set()
    for o in outs:
        st = o.state
        if isinstance(o.value, EnumV) and o.value.enum == "!":
            continue
        mkeys = [k for k in st.cons if k.endswith(".mnemonic") and not k.startswith("next:")]
        if not mkeys:
            continue
        mns = st.cons[mkeys[0]][0]
        if not mns:
            continue
        pair_atoms = [(a, t) for a, t in st.atoms.items()]
        nxt = [k for k in st.cons if k.startswith("next:")]
        # is this the two-instruction (x + BEQ) case?  remove == 2
        rem = st.env.get("remove")
        remove = rem.v if isinstance(rem, Const) else None
        seq = pushed_seq(st)
        for mn in sorted(mns):
            pair = remove == 2
            kind = mn + ("+BEQ" if pair else "")
            key = "T-LB-EQUIV:%s" % kind
            if key in kinds_seen:
                # several paths (e.g. next line is not an instruction / is another instruction) give the same kind
                pass
            kinds_seen.add(key)
            res.inst(key, True, {"original": kind, "replacement": [(m, l) for m, l, _ in seq], "remove": remove})
            if remove not in (1, 2):
                res.fail(key, facts.where(fn, blk), "cannot read how many instructions the repair removes")
                continue
            # the pair is only recognised when the following instruction is BEQ to the same label
            if pair:
                ok_pair = any("BEQ" in a and t for a, t in pair_atoms) and any("dasm_operand" in a and t for a, t in pair_atoms)
                if not ok_pair:
                    res.fail(key, facts.where(fn, blk), "two instructions are removed although the second was not checked to be a BEQ to the same label")
                    continue
            for N in (0, 1):
                for Z in (0, 1):
                    for C in (0, 1):
                        before = taken(mn, N, Z, C) or (pair and taken("BEQ", N, Z, C))
                        after = reaches_target(seq, "target", N, Z, C)
                        if after is None:
                            res.fail(key, facts.where(fn, blk), "replacement for %s branches to an undefined local label: %s" % (kind, [(m, l) for m, l, _ in seq]))
                            break
                        if before != after:
                            res.fail(key, facts.where(fn, blk), "repair of %s: with N=%d Z=%d C=%d the original %s the target but the replacement %s does %s" % (
                                kind, N, Z, C, "reaches" if before else "does not reach", [m for m, _, _ in seq if m != "label"], "" if after else "not"),
                                {"flags": [N, Z, C], "replacement": [(m, l) for m, l, _ in seq]})
                            break
                    else:
                        continue
                    break
                else:
                    continue
                break
            # shape: must end with JMP target ; label .fix
            tail = [(m, l) for m, l, _ in seq[-2:]]
            if len(seq) < 2 or tail[0] != ("JMP", "target") or tail[1][0] != "label":
                res.fail(key + ":shape", facts.where(fn, blk), "replacement does not end with `JMP <target>` followed by the skip label: %s" % tail)
    want = {"T-LB-EQUIV:%s" % k for k in ("BEQ", "BNE", "BCC", "BCS", "BMI", "BPL", "BCC+BEQ", "BMI+BEQ")}
    for k in sorted(want - kinds_seen):
        res.inst(k)
        res.fail(k, facts.where(fn, blk), "no repair path found for branch kind %s" % k.split(":")[1])
    res.exhaustive = True


@rule("T-LB-RANGE", floor=4,
      text="check_branches repairs every branch whose byte distance exceeds what an 8-bit displacement reaches: with the backward sum including the branch itself and the forward sum starting after it, the largest distance left unrepaired is <= 127; the scan covers all six conditional branch mnemonics; after a repair the scan restarts from the first line and the loop only ends after a scan without repair; .fix labels use a counter incremented once per repair before use")
def t_lb_range(facts, res, tier):
    fn = facts.fn("check_branches", "AssemblyCode")
    # threshold
    thr = None
    thr_node = None
    for n in walk(fn["body"]):
        if n.get("k") == "if" and n["cond"].get("k") == "binary" and n["cond"]["op"] in (">", ">=") and n["cond"]["r"].get("k") == "lit":
            lt = expr_text(n["cond"]["l"])
            if "distance" in lt or "bytes" in lt:
                k = n["cond"]["r"]["v"]
                thr = k if n["cond"]["op"] == ">" else k - 1
                thr_node = n
    res.inst("T-LB-RANGE:threshold", True, {"largest_unrepaired_distance": thr})
    if thr is None:
        raise AnchorMissing("check_branches: distance threshold comparison not found")
    # starting indices of the two walks
    inits = {}
    for n in walk(fn["body"]):
        if n.get("k") == "let" and n["pat"].get("k") == "ident" and "init" in n:
            inits.setdefault(n["pat"]["name"], []).append(expr_text(n["init"]))
    above0 = inits.get("index_above", [None])[0]
    below0 = inits.get("index_below", [None])[0]
    res.inst("T-LB-RANGE:walk-starts", True, {"index_above": above0, "index_below": below0})
    if above0 is None or below0 is None:
        raise AnchorMissing("check_branches: index_above/index_below initialisers not found")
    pos_name = above0 if above0 and "+" not in above0 and "-" not in above0 else None
    back_includes_self = pos_name is not None
    fwd_excludes_self = pos_name is not None and below0 in ("(%s+1)" % pos_name, "%s+1" % pos_name)
    fwd_limit = 127 if fwd_excludes_self else (129 if below0 == pos_name else None)
    back_limit = 128 if back_includes_self else 126
    if fwd_limit is None:
        res.fail("T-LB-RANGE:walk-starts", facts.where(fn), "cannot relate the forward walk's start `%s` to the branch position" % below0)
    else:
        if thr > fwd_limit or thr > back_limit:
            res.fail("T-LB-RANGE:threshold", facts.where(fn, thr_node), "branches up to %d bytes away are left unrepaired; a forward branch reaches %d and a backward one %d with this byte accounting" % (thr, fwd_limit, back_limit))
    # the distance used is the one of the direction where the label was found
    dist = inits.get("distance", [None])[0]
    res.inst("T-LB-RANGE:distance-select", True, {"distance": dist})
    if dist is None or not ("above" in dist and "bytes_above" in dist and "bytes_below" in dist):
        res.fail("T-LB-RANGE:distance-select", facts.where(fn), "`distance` is not selected from bytes_above/bytes_below by the direction found: %s" % dist)
    # scanned mnemonics
    scanned = None
    for m in walk(fn["body"]):
        if m.get("k") == "match" and expr_text(m["e"]).endswith(".mnemonic"):
            for arm in m["arms"]:
                pats = arm["pat"]["alts"] if arm["pat"].get("k") == "or" else [arm["pat"]]
                names = {p["segs"][-1] for p in pats if p.get("k") == "path"}
                if names & set(BRANCHES) and "bytes_above" in expr_text(arm["body"]):
                    scanned = names
    # no arm before the measuring one takes a conditional branch away from it (a guarded arm that skips some of them)
    for m in walk(fn["body"]):
        if m.get("k") == "match" and expr_text(m["e"]).endswith(".mnemonic") and any("bytes_above" in expr_text(a["body"]) for a in m["arms"]):
            measuring = None
            for ai, arm in enumerate(m["arms"]):
                pats = arm["pat"]["alts"] if arm["pat"].get("k") == "or" else [arm["pat"]]
                names = {p["segs"][-1] for p in pats if p.get("k") == "path"}
                wild = any(p.get("k") in ("wild", "ident") for p in pats)
                if names & set(BRANCHES) and "bytes_above" in expr_text(arm["body"]):
                    measuring = ai
                    if arm.get("guard") is not None:
                        res.fail("T-LB-RANGE:scanned-mnemonics:guard", facts.where(fn, arm["guard"]), "the arm that measures the branches has a guard: the branches it rejects are not measured")
                    break
                if (names & set(BRANCHES)) or wild:
                    res.fail("T-LB-RANGE:scanned-mnemonics:skipped", facts.where(fn, arm["body"]),
                             "an arm before the measuring one takes %s out of the distance scan%s: such a branch keeps an 8-bit displacement whatever its distance (the BEQ of a `<=` pair lies two bytes further from a backward target than the branch before it)" % (
                                 sorted(names & set(BRANCHES)) or "every mnemonic", " under `%s`" % expr_text(arm["guard"])[:50] if arm.get("guard") is not None else ""))
    res.inst("T-LB-RANGE:scanned-mnemonics", True, {"scanned": sorted(scanned or [])})
    if scanned is None or set(BRANCHES) - scanned:
        res.fail("T-LB-RANGE:scanned-mnemonics", facts.where(fn), "the distance scan does not cover %s" % sorted(set(BRANCHES) - (scanned or set())))
    # restart discipline
    wl = [n for n in walk(fn["body"]) if n.get("k") == "while"]
    if not wl:
        raise AnchorMissing("check_branches: outer while loop not found")
    outer = wl[0]
    flag = expr_text(outer["cond"])
    body_txt = expr_text(outer["body"])
    res.inst("T-LB-RANGE:restart", True, {"loop_flag": flag})
    ok_restart = True
    why = ""
    top_lets = [s for s in outer["body"]["stmts"] if s.get("k") == "let"]
    if not any("self.code.iter()" in expr_text(s.get("init")) for s in top_lets):
        ok_restart, why = False, "the scan iterator is not re-created from the first line on each pass"
    if not any(s["pat"].get("name") == "position" and expr_text(s.get("init")) == "0" for s in top_lets if s["pat"].get("k") == "ident"):
        ok_restart, why = False, "`position` is not reset to 0 on each pass"
    # every `flag = false` must sit under an end-of-scan test
    def assigns_false(node, guards):
        out = []
        if node.get("k") == "if":
            g = guards + [expr_text(node["cond"])]
            out += assigns_false(node["then"], g)
            if "else" in node:
                out += assigns_false(node["else"], guards + ["!" + expr_text(node["cond"])])
            return out
        if node.get("k") == "assign" and expr_text(node["l"]) == flag and expr_text(node["r"]) == "false":
            return [(node, guards)]
        for c in __import__("astlib").children(node):
            out += assigns_false(c, guards)
        return out
    afs = assigns_false(outer["body"], [])
    if not afs:
        ok_restart, why = False, "the loop flag is never cleared"
    for node, guards in afs:
        if not any("is_none()" in g and not g.startswith("!") for g in guards):
            ok_restart, why = False, "`%s = false` is not guarded by the end-of-scan test" % flag
    if not ok_restart:
        res.fail("T-LB-RANGE:restart", facts.where(fn, outer), why)
    # label counter
    blk = find_repair_block(fn)
    stmts = blk["then"]["stmts"]
    counter = None
    first_inc = None
    for i, s in enumerate(stmts):
        if s.get("k") == "assignop" and s["op"] == "+" and expr_text(s["r"]) == "1":
            counter = expr_text(s["l"])
            first_inc = i
            break
    res.inst("T-LB-RANGE:label-counter", True, {"counter": counter})
    fmts = [n for n in walk(blk["then"]) if n.get("k") == "macro" and n["name"] == "format" and n.get("args") and ".fix" in str(n["args"][0].get("v"))]
    if counter is None or not fmts:
        res.fail("T-LB-RANGE:label-counter", facts.where(fn, blk), "repair labels / counter increment not found")
    else:
        incs = [n for n in walk(fn["body"]) if n.get("k") in ("assignop", "assign") and expr_text(n["l"]) == counter]
        if len(incs) != 1:
            res.fail("T-LB-RANGE:label-counter", facts.where(fn, blk), "counter `%s` is written %d times (expected exactly one increment per repair)" % (counter, len(incs)))
        for f in fmts:
            if len(f["args"]) < 2 or expr_text(f["args"][1]) != counter:
                res.fail("T-LB-RANGE:label-counter", facts.where(fn, f), "repair label is not derived from the per-repair counter")
        # increment precedes first use
        first_use = min(i for i, s in enumerate(stmts) if ".fix" in expr_text(s))
        if first_inc is None or first_inc > first_use:
            res.fail("T-LB-RANGE:label-counter", facts.where(fn, blk), "counter is incremented after the label is formatted")
