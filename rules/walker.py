"""Path enumeration over the simplified syntax tree with finite-domain refinement.

This is conditional constant propagation done path-wise: every `if`, `if let`,
`match` and `matches!` splits the current state; inputs whose type is a crate enum
or `bool` carry a *domain* (set of still-possible variants) that is refined on each
edge, and a path whose domain becomes empty is pruned.  Conditions the analysis
does not understand become *opaque atoms* (canonical text + polarity); two
occurrences of the same atom with opposite polarity prune the path.

No code is executed: values are abstract (constants, enum variants, symbolic
inputs, `format!` templates) and calls are recorded as events, never entered
(unless a rule's hook asks for a callee's paths).
"""
import re

from astlib import expr_text, pat_text, AnchorMissing

MAX_PATHS = 200000


class PathLimit(Exception):
    pass


# ---------------------------------------------------------------- values


class Val:
    pass


class Const(Val):
    __slots__ = ("v",)

    def __init__(self, v):
        self.v = v

    def __repr__(self):
        return "Const(%r)" % (self.v,)

    def key(self):
        return ("c", self.v if not isinstance(self.v, bool) else ("b", self.v))


class EnumV(Val):
    __slots__ = ("enum", "variant", "payload")

    def __init__(self, enum, variant, payload=()):
        self.enum = enum
        self.variant = variant
        self.payload = tuple(payload)

    def __repr__(self):
        if self.payload:
            return "%s::%s(%s)" % (self.enum, self.variant, ", ".join(map(repr, self.payload)))
        return "%s::%s" % (self.enum, self.variant)


class Sym(Val):
    __slots__ = ("key", "ty")

    def __init__(self, key, ty=None):
        self.key = key
        self.ty = ty

    def __repr__(self):
        return "Sym(%s:%s)" % (self.key, self.ty)


class Fmt(Val):
    __slots__ = ("template", "args")

    def __init__(self, template, args):
        self.template = template
        self.args = tuple(args)

    def __repr__(self):
        return "Fmt(%r, %r)" % (self.template, self.args)


class Tup(Val):
    __slots__ = ("elems",)

    def __init__(self, elems):
        self.elems = tuple(elems)

    def __repr__(self):
        return "Tup%r" % (self.elems,)


class StructV(Val):
    __slots__ = ("name", "fields")

    def __init__(self, name, fields):
        self.name = name
        self.fields = dict(fields)

    def __repr__(self):
        return "%s{%s}" % (self.name, ", ".join("%s: %r" % kv for kv in self.fields.items()))


class Unknown(Val):
    __slots__ = ("text",)

    def __init__(self, text=""):
        self.text = text

    def __repr__(self):
        return "Unknown(%s)" % self.text


class Closure(Val):
    __slots__ = ("node",)

    def __init__(self, node):
        self.node = node

    def __repr__(self):
        return "Closure"


UNINIT = Unknown("<uninit>")
UNIT = Tup(())


def norm_ty(t):
    """Strip references, lifetimes, mut, Box from a printed type."""
    if t is None:
        return None
    t = t.strip()
    changed = True
    while changed:
        changed = False
        for pre in ("& ", "&", "mut ", "* "):
            if t.startswith(pre):
                t = t[len(pre):].strip()
                changed = True
        m = re.match(r"^'\w+\s+(.*)$", t)
        if m:
            t = m.group(1).strip()
            changed = True
        m = re.match(r"^Box\s*<\s*(.*)\s*>$", t)
        if m:
            t = m.group(1).strip()
            changed = True
    # drop generic lifetime args:  Foo < 'a >
    t = re.sub(r"\s*<\s*'\w+\s*>", "", t)
    # crate paths
    t = re.sub(r"^(crate\s*::\s*)?(\w+\s*::\s*)*(\w+)$", r"\3", t) if re.match(r"^[\w\s:]+$", t) else t
    return t


def generic_arg(t, outer):
    """For 'Vec < X >' return X."""
    if t is None:
        return None
    m = re.match(r"^%s\s*<\s*(.*)\s*>$" % outer, t)
    if m:
        return m.group(1).strip()
    return None


class State:
    __slots__ = ("env", "cons", "atoms", "events", "notes")

    def __init__(self):
        self.env = {}
        self.cons = {}  # sym key -> (allowed frozenset|None, excluded frozenset)
        self.atoms = {}  # text -> bool
        self.events = []
        self.notes = {}

    def copy(self):
        s = State.__new__(State)
        s.env = dict(self.env)
        s.cons = dict(self.cons)
        s.atoms = dict(self.atoms)
        s.events = list(self.events)
        s.notes = dict(self.notes)
        return s

    # domain handling ------------------------------------------------
    def restrict(self, key, allowed=None, exclude=None, universe=None):
        """Return a refined copy, or None when infeasible."""
        cur_allowed, cur_excl = self.cons.get(key, (None, frozenset()))
        if cur_allowed is None and universe is not None:
            cur_allowed = frozenset(universe)
        na, ne = cur_allowed, cur_excl
        if allowed is not None:
            allowed = frozenset(allowed)
            na = allowed if na is None else (na & allowed)
        if exclude is not None:
            ne = ne | frozenset(exclude)
        if na is not None:
            na = na - ne
            if not na:
                return None
            ne = frozenset()
        s = self.copy()
        s.cons[key] = (na, ne)
        return s

    def domain(self, key):
        return self.cons.get(key, (None, frozenset()))

    def with_atom(self, text, truth):
        if text in self.atoms:
            if self.atoms[text] != truth:
                return None
            return self
        s = self.copy()
        s.atoms[text] = truth
        return s


class Outcome:
    __slots__ = ("kind", "state", "value")

    def __init__(self, kind, state, value=None):
        self.kind = kind  # 'val' | 'ret' | 'break' | 'cont'
        self.state = state
        self.value = value


class Walker:
    def __init__(self, facts, fn, hooks=None, ignore_vars=(), loop_mode="once", sym_params=True, self_ty=None):
        self.facts = facts
        self.fn = fn
        self.hooks = hooks or {}
        self.ignore_vars = set(ignore_vars)
        self.loop_mode = loop_mode
        self.npaths = 0
        self.self_ty = self_ty or norm_ty(fn["qual"]) if fn.get("qual") else None
        self.local_types = {}
        self.init = State()
        if sym_params:
            for p in fn["params"]:
                name = p["name"].replace("mut ", "").strip()
                if name == "self":
                    continue
                self.init.env[name] = Sym(name, norm_ty(p["ty"]))

    # ------------------------------------------------------------ types
    def enum_universe(self, ty):
        ty = norm_ty(ty)
        if ty == "bool":
            return [True, False]
        if ty in self.facts.enums:
            return self.facts.enum_variants(ty)
        return None

    def field_type(self, base_ty, name):
        base_ty = norm_ty(base_ty)
        if base_ty is None:
            return None
        s = self.facts.structs.get(base_ty)
        if s:
            for f in s["fields"]:
                if f["name"] == name:
                    return norm_ty(f["ty"])
        return None

    def method_ret(self, name):
        c = self.facts.fns_named(name)
        if len(c) == 1:
            return norm_ty(c[0]["ret"])
        return None

    # ------------------------------------------------------------ paths
    def resolve_path(self, segs, state):
        """Local variable, enum variant or constant."""
        if len(segs) == 1:
            n = segs[0]
            if n in state.env:
                return state.env[n]
            if n == "self":
                return Sym("self", self.self_ty)
            if n == "None":
                return EnumV("Option", "None")
            if n in ("true", "false"):
                return Const(n == "true")
            enums = self.facts.variant_index.get(n)
            if enums and len(enums) == 1:
                return EnumV(enums[0], n)
            return Unknown(n)
        last = segs[-1]
        prev = segs[-2]
        if prev in self.facts.enums and last in self.facts.enum_variants(prev):
            return EnumV(prev, last)
        if prev == "Option" and last == "None":
            return EnumV("Option", "None")
        return Unknown("::".join(segs))

    def variant_of_path(self, segs):
        """(enum, variant) for a pattern / constructor path, or None."""
        last = segs[-1]
        if len(segs) >= 2 and segs[-2] in self.facts.enums:
            if last in self.facts.enum_variants(segs[-2]):
                return (segs[-2], last)
        if last in ("Some", "None"):
            return ("Option", last)
        if last in ("Ok", "Err"):
            return ("Result", last)
        enums = self.facts.variant_index.get(last)
        if enums and len(enums) == 1:
            return (enums[0], last)
        return None

    # ------------------------------------------------------------ run
    def run(self, body=None, state=None):
        """Enumerate paths through the function body; returns list of Outcome
        (kind 'val' = fell off the end with value, 'ret' = explicit return)."""
        self.npaths = 0
        st = state or self.init.copy()
        outs = self.eval(body or self.fn["body"], st)
        res = []
        for o in outs:
            if o.kind in ("val", "ret"):
                res.append(o)
            # stray break/continue at function level are dropped
        return res

    def count(self, n=1):
        self.npaths += n
        if self.npaths > MAX_PATHS:
            raise PathLimit("more than %d paths in %s" % (MAX_PATHS, self.fn["name"]))

    # sequencing helper: apply f to each 'val' outcome, pass others through
    def then(self, outs, f):
        res = []
        for o in outs:
            if o.kind == "val":
                res.extend(f(o.state, o.value))
            else:
                res.append(o)
        return res

    def eval_list(self, nodes, state):
        """Evaluate expressions left to right; outcome values are lists."""
        outs = [Outcome("val", state, [])]
        for n in nodes:
            def step(st, acc, n=n):
                return self.then(self.eval(n, st), lambda s2, v: [Outcome("val", s2, acc + [v])])
            outs = self.then(outs, step)
        return outs

    # ------------------------------------------------------------ statements / expressions
    def is_ignorable(self, n):
        """Statement whose only effect is on ignored variables."""
        k = n.get("k")
        if k == "let":
            p = n["pat"]
            return p.get("k") == "ident" and p["name"] in self.ignore_vars
        if k in ("assign", "assignop"):
            l = n["l"]
            return l.get("k") == "path" and len(l["segs"]) == 1 and l["segs"][0] in self.ignore_vars
        if k == "block":
            return all(self.is_ignorable(s) for s in n["stmts"])
        if k == "if":
            if not self.is_ignorable(n["then"]):
                return False
            if "else" in n and not self.is_ignorable(n["else"]):
                return False
            return True
        if k == "match":
            return all(self.is_ignorable(a["body"]) for a in n["arms"])
        if k == "tuple" and not n["elems"]:
            return True
        return False

    def eval_block(self, n, state):
        outs = [Outcome("val", state, UNIT)]
        stmts = n["stmts"]
        for i, s in enumerate(stmts):
            last = i == len(stmts) - 1
            def step(st, _v, s=s, last=last):
                if self.is_ignorable(s):
                    if s.get("k") == "let":
                        st = st.copy()
                        st.env[s["pat"]["name"]] = Unknown("ignored")
                    return [Outcome("val", st, UNIT)]
                outs2 = self.eval(s, st)
                if s.get("semi") or s.get("k") == "let" or not last:
                    return self.then(outs2, lambda s2, v: [Outcome("val", s2, UNIT)])
                return outs2
            outs = self.then(outs, step)
        return outs

    def eval(self, n, state):
        k = n.get("k")
        m = getattr(self, "ev_" + k, None)
        if m is None:
            return [Outcome("val", state, Unknown(expr_text(n)))]
        return m(n, state)

    def ev_block(self, n, state):
        return self.eval_block(n, state)

    def ev_lit(self, n, state):
        return [Outcome("val", state, Const(n["v"]))]

    def ev_path(self, n, state):
        return [Outcome("val", state, self.resolve_path(n["segs"], state))]

    def ev_ref(self, n, state):
        return self.eval(n["e"], state)

    def ev_cast(self, n, state):
        return self.eval(n["e"], state)

    def ev_try(self, n, state):
        # `e?` : continue on the Ok/Some value; the error exit leaves the function
        def f(st, v):
            if isinstance(v, EnumV) and v.enum in ("Result", "Option"):
                if v.variant in ("Ok", "Some"):
                    return [Outcome("val", st, v.payload[0] if v.payload else UNIT)]
                return [Outcome("ret", st, v)]
            return [Outcome("val", st, self.unwrap_val(v))]
        return self.then(self.eval(n["e"], state), f)

    def unwrap_val(self, v):
        if isinstance(v, Sym):
            t = v.ty
            inner = generic_arg(t, "Option") or None
            if inner is None and t and t.startswith("Result"):
                m = re.match(r"^Result\s*<\s*([^,]+),", t)
                inner = m.group(1).strip() if m else None
            return Sym(v.key, norm_ty(inner) if inner else None)
        return v

    def ev_field(self, n, state):
        text = expr_text(n)
        if text in state.env:
            return [Outcome("val", state, state.env[text])]
        def f(st, b):
            name = n["name"]
            if isinstance(b, StructV) and name in b.fields:
                return [Outcome("val", st, b.fields[name])]
            if isinstance(b, Tup) and name.isdigit() and int(name) < len(b.elems):
                return [Outcome("val", st, b.elems[int(name)])]
            if isinstance(b, Sym):
                key = b.key + "." + name
                if key in st.env:
                    return [Outcome("val", st, st.env[key])]
                ty = self.field_type(b.ty, name)
                if ty is None and b.ty and name.isdigit():
                    # tuple type "(A , B)"
                    mm = re.match(r"^\((.*)\)$", b.ty)
                    if mm:
                        parts = split_top(mm.group(1))
                        if int(name) < len(parts):
                            ty = norm_ty(parts[int(name)])
                return [Outcome("val", st, Sym(key, ty))]
            return [Outcome("val", st, Unknown(text))]
        return self.then(self.eval(n["base"], state), f)

    def ev_index(self, n, state):
        def f(st, b):
            if isinstance(b, Sym):
                inner = generic_arg(b.ty, "Vec")
                return [Outcome("val", st, Sym(b.key + "[" + expr_text(n["idx"]) + "]", norm_ty(inner)))]
            return [Outcome("val", st, Unknown(expr_text(n)))]
        return self.then(self.eval(n["base"], state), f)

    def ev_tuple(self, n, state):
        return self.then(self.eval_list(n["elems"], state), lambda st, vs: [Outcome("val", st, Tup(vs))])

    def ev_array(self, n, state):
        return self.then(self.eval_list(n["elems"], state), lambda st, vs: [Outcome("val", st, Tup(vs))])

    def ev_struct(self, n, state):
        names = [f["name"] for f in n["fields"]]
        def f(st, vs):
            return [Outcome("val", st, StructV("::".join(n["segs"]), zip(names, vs)))]
        return self.then(self.eval_list([f["e"] for f in n["fields"]], state), f)

    def ev_closure(self, n, state):
        return [Outcome("val", state, Closure(n))]

    def ev_range(self, n, state):
        return [Outcome("val", state, Unknown(expr_text(n)))]

    def ev_unary(self, n, state):
        op = n["op"]
        if op == "*":
            return self.eval(n["e"], state)
        if op == "!":
            # boolean not when the operand is a condition
            res = []
            for st, truth in self.cond(n["e"], state):
                if truth is None:
                    res.append(Outcome("val", st, Unknown(expr_text(n))))
                else:
                    res.append(Outcome("val", st, Const(not truth)))
            return merge_bool_outcomes(res)
        def f(st, v):
            if isinstance(v, Const) and isinstance(v.v, int) and not isinstance(v.v, bool):
                if op == "-":
                    return [Outcome("val", st, Const(-v.v))]
            return [Outcome("val", st, Unknown(expr_text(n)))]
        return self.then(self.eval(n["e"], state), f)

    def ev_binary(self, n, state):
        op = n["op"]
        if op in ("==", "!=", "<", ">", "<=", ">=", "&&", "||"):
            res = []
            for st, truth in self.cond(n, state):
                if truth is None:
                    res.append(Outcome("val", st, Unknown(expr_text(n))))
                else:
                    res.append(Outcome("val", st, Const(truth)))
            return merge_bool_outcomes(res)
        def f(st, vs):
            a, b = vs
            if isinstance(a, Const) and isinstance(b, Const) and isint(a.v) and isint(b.v):
                try:
                    r = {"+": lambda: a.v + b.v, "-": lambda: a.v - b.v, "*": lambda: a.v * b.v,
                         "&": lambda: a.v & b.v, "|": lambda: a.v | b.v, "^": lambda: a.v ^ b.v,
                         "<<": lambda: a.v << b.v, ">>": lambda: a.v >> b.v,
                         "/": lambda: int(a.v / b.v) if b.v != 0 else None,
                         "%": lambda: (abs(a.v) % abs(b.v)) * (1 if a.v >= 0 else -1) if b.v != 0 else None}.get(op, lambda: None)()
                except Exception:
                    r = None
                if r is not None:
                    return [Outcome("val", st, Const(r))]
            return [Outcome("val", st, BinOp(op, a, b))]
        return self.then(self.eval_list([n["l"], n["r"]], state), f)

    def ev_let(self, n, state):
        pat = n["pat"]
        if "init" not in n:
            st = state.copy()
            for name in pat_names(pat):
                st.env[name] = UNINIT
            return [Outcome("val", st, UNIT)]
        def f(st, v):
            if "ty" in n and isinstance(v, (Unknown,)):
                v = Unknown(v.text)
            matched, unmatched = self.split_pat(st, v, pat)
            res = [Outcome("val", s2, UNIT) for s2 in matched]
            if "else" in n:
                for s2 in unmatched:
                    res.extend(self.eval(n["else"], s2))
            self.count(max(0, len(res) - 1))
            return res
        return self.then(self.eval(n["init"], state), f)

    def lvalue_key(self, l, state):
        t = expr_text(l)
        return t

    def ev_assign(self, n, state):
        def f(st, v):
            st = st.copy()
            key = self.lvalue_key(n["l"], st)
            st.env[key] = v
            h = self.hooks.get("on_assign")
            if h:
                h(self, st, n, key, v)
            return [Outcome("val", st, UNIT)]
        return self.then(self.eval(n["r"], state), f)

    def ev_assignop(self, n, state):
        fake = {"k": "binary", "op": n["op"], "l": n["l"], "r": n["r"], "loc": n.get("loc")}
        def f(st, v):
            st = st.copy()
            key = self.lvalue_key(n["l"], st)
            st.env[key] = v
            h = self.hooks.get("on_assign")
            if h:
                h(self, st, n, key, v)
            return [Outcome("val", st, UNIT)]
        return self.then(self.ev_binary(fake, state), f)

    def ev_return(self, n, state):
        if "e" not in n:
            return [Outcome("ret", state, UNIT)]
        return self.then(self.eval(n["e"], state), lambda st, v: [Outcome("ret", st, v)])

    def ev_break(self, n, state):
        return [Outcome("break", state, None)]

    def ev_continue(self, n, state):
        return [Outcome("cont", state, None)]

    def ev_if(self, n, state):
        res = []
        branches = self.cond(n["cond"], state)
        self.count(max(0, len(branches) - 1))
        for st, truth in branches:
            if truth is True:
                res.extend(self.eval(n["then"], st))
            elif truth is False:
                if "else" in n:
                    res.extend(self.eval(n["else"], st))
                else:
                    res.append(Outcome("val", st, UNIT))
            else:
                # unknown: both
                text = expr_text(n["cond"])
                s1 = st.with_atom(text, True)
                if s1 is not None:
                    res.extend(self.eval(n["then"], s1))
                s2 = st.with_atom(text, False)
                if s2 is not None:
                    if "else" in n:
                        res.extend(self.eval(n["else"], s2))
                    else:
                        res.append(Outcome("val", s2, UNIT))
        return res

    def ev_match(self, n, state):
        def f(st, v):
            res = []
            pending = [st]
            for arm in n["arms"]:
                nxt = []
                for s in pending:
                    matched, unmatched = self.split_pat(s, v, arm["pat"])
                    for ms in matched:
                        if "guard" in arm:
                            for gs, truth in self.cond(arm["guard"], ms):
                                if truth is True:
                                    res.extend(self.eval(arm["body"], gs))
                                elif truth is False:
                                    nxt.append(gs)
                                else:
                                    text = expr_text(arm["guard"])
                                    g1 = gs.with_atom(text, True)
                                    if g1 is not None:
                                        res.extend(self.eval(arm["body"], g1))
                                    g2 = gs.with_atom(text, False)
                                    if g2 is not None:
                                        nxt.append(g2)
                        else:
                            res.extend(self.eval(arm["body"], ms))
                    nxt.extend(unmatched)
                pending = nxt
                if not pending:
                    break
            self.count(max(0, len(res) - 1))
            return res
        return self.then(self.eval(n["e"], state), f)

    def ev_letcond(self, n, state):
        # only meaningful inside cond(); as an expression produce bool
        res = []
        for st, truth in self.cond(n, state):
            res.append(Outcome("val", st, Const(truth) if truth is not None else Unknown(expr_text(n))))
        return res

    def ev_loop(self, n, state):
        return self.run_loop(n["body"], state, None, infinite=True)

    def ev_while(self, n, state):
        return self.run_loop(n["body"], state, n["cond"], infinite=False)

    def ev_for(self, n, state):
        def f(st, itv):
            h = self.hooks.get("on_for")
            st2 = st.copy()
            elem = None
            if h:
                elem = h(self, st2, n, itv)
            if elem is None:
                elem = Unknown("elem of " + expr_text(n["iter"]))
                if isinstance(itv, Sym):
                    inner = generic_arg(itv.ty, "Vec")
                    if inner:
                        elem = Sym(itv.key + "[*]", norm_ty(inner))
            matched, _ = self.split_pat(st2, elem, n["pat"])
            res = []
            # zero iterations
            if self.loop_mode != "once_only":
                res.append(Outcome("val", st, UNIT))
            for ms in matched:
                if ms is st:
                    ms = ms.copy()
                ms.events.append({"kind": "loop_begin", "id": id(n), "node": n})
                for o in self.eval(n["body"], ms):
                    if o.kind in ("val", "cont", "break"):
                        o.state.events.append({"kind": "loop_end", "id": id(n), "node": n, "exit": o.kind})
                        res.append(Outcome("val", o.state, UNIT))
                    else:
                        res.append(o)
            return res
        return self.then(self.eval(n["iter"], state), f)

    def run_loop(self, body, state, cond, infinite):
        res = []
        entries = [(state, True)]
        if cond is not None:
            entries = []
            for st, truth in self.cond(cond, state):
                if truth is None:
                    text = expr_text(cond)
                    s1 = st.with_atom(text, True)
                    # do not record the atom: the loop condition changes between iterations
                    entries.append((st, True))
                    res.append(Outcome("val", st, UNIT))
                elif truth:
                    entries.append((st, True))
                else:
                    res.append(Outcome("val", st, UNIT))
        for st, _ in entries:
            st = st.copy()
            st.events.append({"kind": "loop_begin", "id": id(body), "node": body})
            for o in self.eval(body, st):
                if o.kind == "break":
                    o.state.events.append({"kind": "loop_end", "id": id(body), "node": body, "exit": "break"})
                    res.append(Outcome("val", o.state, UNIT))
                elif o.kind in ("val", "cont"):
                    # one iteration done; leave the loop (summary: body executed once)
                    if not infinite or self.loop_mode == "once":
                        o.state.events.append({"kind": "loop_end", "id": id(body), "node": body, "exit": o.kind})
                        res.append(Outcome("val", o.state, UNIT))
                else:
                    res.append(o)
        return res

    # ------------------------------------------------------------ calls / macros
    def ev_call(self, n, state):
        func = n["func"]
        def f(st, args):
            if func.get("k") == "path":
                segs = func["segs"]
                var = self.variant_of_path(segs)
                if var is not None and segs[-1] not in st.env:
                    return [Outcome("val", st, EnumV(var[0], var[1], args))]
                h = self.hooks.get("on_call")
                if h:
                    r = h(self, st, n, "::".join(segs), None, args)
                    if r is not None:
                        return wrap_hook(st, r)
                name = segs[-1]
                if name in ("from", "new") and len(segs) >= 2 and segs[-2] in ("String", "Box", "Rc"):
                    return [Outcome("val", st, args[0] if args else Unknown(expr_text(n)))]
                rt = None
                c = self.facts.fns_named(name)
                if len(c) == 1:
                    rt = norm_ty(c[0]["ret"])
                return [Outcome("val", st, Sym(expr_text(n), rt) if rt else Unknown(expr_text(n)))]
            return [Outcome("val", st, Unknown(expr_text(n)))]
        return self.then(self.eval_list(n["args"], state), f)

    STATEFUL_METHODS = {"next", "pop", "remove", "take", "read_line", "drain", "next_back", "recv", "pop_front", "pop_back"}
    IDENTITY_METHODS = {"clone", "to_string", "into", "as_str", "as_ref", "to_owned", "borrow", "as_mut", "borrow_mut",
                        "iter", "iter_mut", "into_iter", "as_bytes", "trim_end", "cloned", "copied", "deref", "to_vec", "as_slice"}

    def lookup_aliases(self):
        la = getattr(self.facts, "_lookup_aliases", None)
        if la is None:
            from scopes import lookup_helpers
            la = lookup_helpers(self.facts, ("variables", "functions"))
            self.facts._lookup_aliases = la
        return la

    def ev_mcall(self, n, state):
        def f(st, vs):
            recv, args = vs[0], vs[1:]
            name = n["method"]
            h = self.hooks.get("on_call")
            if h:
                r = h(self, st, n, name, recv, args)
                if r is not None:
                    return wrap_hook(st, r)
            if name in self.IDENTITY_METHODS and not args:
                return [Outcome("val", st, recv)]
            if name in ("ok_or_else", "ok_or", "map_err", "ok", "unwrap_or_default") and isinstance(recv, Sym):
                return [Outcome("val", st, recv)]
            if name in ("unwrap", "expect"):
                if isinstance(recv, EnumV) and recv.variant in ("Some", "Ok") and recv.payload:
                    return [Outcome("val", st, recv.payload[0])]
                return [Outcome("val", st, self.unwrap_val(recv))]
            if name in ("is_some", "is_none", "is_ok", "is_err") and isinstance(recv, Sym) and not args:
                uni = ["Some", "None"] if name in ("is_some", "is_none") else ["Ok", "Err"]
                pos = {"is_some": "Some", "is_none": "None", "is_ok": "Ok", "is_err": "Err"}[name]
                outs = []
                s1 = st.restrict(recv.key, allowed=[pos], universe=uni)
                if s1 is not None:
                    outs.append(Outcome("val", s1, Const(True)))
                s2 = st.restrict(recv.key, exclude=[pos], universe=uni)
                if s2 is not None:
                    outs.append(Outcome("val", s2, Const(False)))
                return outs
            if name in ("is_some", "is_none", "is_ok", "is_err") and isinstance(recv, EnumV):
                truth = recv.variant in {"is_some": ("Some",), "is_none": ("None",), "is_ok": ("Ok",), "is_err": ("Err",)}[name]
                return [Outcome("val", st, Const(truth))]
            if name == "is_empty" and isinstance(recv, Const) and isinstance(recv.v, str):
                return [Outcome("val", st, Const(recv.v == ""))]
            if name == "starts_with" and len(args) == 1 and isinstance(args[0], Const) and isinstance(args[0].v, str):
                pre = args[0].v
                if isinstance(recv, Const) and isinstance(recv.v, str):
                    return [Outcome("val", st, Const(recv.v.startswith(pre)))]
                if isinstance(recv, Fmt):
                    lit = recv.template.replace("{{", "\x00").split("{")[0].replace("\x00", "{")
                    if len(lit) >= len(pre) or (lit and not pre.startswith(lit)):
                        return [Outcome("val", st, Const(lit.startswith(pre)))]
            if name == "eq" and len(args) == 1:
                fake = {"k": "binary", "op": "==", "l": n["recv"], "r": n["args"][0]}
                return self.ev_binary(fake, st)
            if name.startswith("wrapping_") and name[9:] in ("add", "sub", "mul", "shl", "shr") and len(args) == 1:
                # overflow-safe spelling of the operator: same value wherever the plain operator is defined
                op = {"add": "+", "sub": "-", "mul": "*", "shl": "<<", "shr": ">>"}[name[9:]]
                fake = {"k": "binary", "op": op, "l": n["recv"], "r": n["args"][0], "loc": n.get("loc")}
                return self.ev_binary(fake, st)
            rt = None
            if name in ("take", "replace") and isinstance(recv, Sym) and recv.ty and recv.ty.startswith("Option"):
                rt = recv.ty
            elif isinstance(recv, Sym) or isinstance(recv, Unknown):
                rt = self.method_ret(name)
            akeys = [(a.key if isinstance(a, Sym) else (repr(a.v) if isinstance(a, Const) else expr_text(an))) for a, an in zip(args, n["args"])]
            key = (recv.key if isinstance(recv, Sym) else expr_text(n["recv"])) + "." + name + "(" + ",".join(akeys) + ")"
            la = self.lookup_aliases().get(name)
            if la is not None and len(akeys) > la[1]:
                # every helper that looks a name up in the same table denotes the same entry:
                # get_variable(n) and find_variable(n, pos)? are one symbolic value
                key = (recv.key if isinstance(recv, Sym) else expr_text(n["recv"])) + ".lookup:" + la[0] + "(" + akeys[la[1]] + ")"
            if name in self.STATEFUL_METHODS:
                # each call yields a new value: never share constraints/atoms between two calls
                st = st.copy()
                c = st.notes.get("fresh", 0) + 1
                st.notes["fresh"] = c
                key += "#%d" % c
                if rt:
                    return [Outcome("val", st, Sym(key, rt))]
                return [Outcome("val", st, Unknown(key))]
            if rt:
                return [Outcome("val", st, Sym(key, rt))]
            return [Outcome("val", st, Unknown(key))]
        return self.then(self.eval_list([n["recv"]] + n["args"], state), f)

    def ev_macro(self, n, state):
        name = n["name"]
        if name in ("unreachable", "panic", "unimplemented", "todo"):
            st = state.copy()
            st.events.append({"kind": "panic", "node": n})
            return [Outcome("ret", st, EnumV("!", "Panic"))]
        if name in ("debug", "info", "warn", "error", "trace", "println", "eprintln", "print"):
            return [Outcome("val", state, UNIT)]
        if name == "matches":
            res = []
            for st, truth in self.cond(n, state):
                res.append(Outcome("val", st, Const(truth) if truth is not None else Unknown(expr_text(n))))
            return merge_bool_outcomes(res)
        if name == "format" and n.get("args"):
            a0 = n["args"][0]
            if a0.get("k") == "lit" and a0["ty"] == "str":
                tmpl = a0["v"]
                def f(st, vs):
                    vals = list(vs)
                    # inline captures {name}
                    named = {}
                    for mm in re.finditer(r"\{([A-Za-z_][A-Za-z0-9_]*)(?::[^}]*)?\}", tmpl):
                        nm = mm.group(1)
                        named[nm] = st.env.get(nm, Unknown(nm))
                    v = Fmt(tmpl, vals)
                    if named:
                        v = Fmt(tmpl, vals + [Tup([Const(k), named[k]]) for k in sorted(named)])
                    return [Outcome("val", st, v)]
                return self.then(self.eval_list(n["args"][1:], state), f)
        if name == "vec":
            return [Outcome("val", state, Unknown("vec"))]
        h = self.hooks.get("on_macro")
        if h:
            r = h(self, state, n)
            if r is not None:
                return wrap_hook(state, r)
        return [Outcome("val", state, Unknown(expr_text(n)))]

    # ------------------------------------------------------------ conditions
    def cond(self, n, state):
        """Return list of (state, truth) with truth in {True, False, None}."""
        k = n.get("k")
        if k == "binary" and n["op"] == "&&":
            res = []
            for st, t in self.cond(n["l"], state):
                if t is False:
                    res.append((st, False))
                elif t is True:
                    res.extend(self.cond(n["r"], st))
                else:
                    text = expr_text(n["l"])
                    s1 = st.with_atom(text, True)
                    if s1 is not None:
                        res.extend(self.cond(n["r"], s1))
                    s2 = st.with_atom(text, False)
                    if s2 is not None:
                        res.append((s2, False))
            return res
        if k == "binary" and n["op"] == "||":
            res = []
            for st, t in self.cond(n["l"], state):
                if t is True:
                    res.append((st, True))
                elif t is False:
                    res.extend(self.cond(n["r"], st))
                else:
                    text = expr_text(n["l"])
                    s1 = st.with_atom(text, True)
                    if s1 is not None:
                        res.append((s1, True))
                    s2 = st.with_atom(text, False)
                    if s2 is not None:
                        res.extend(self.cond(n["r"], s2))
            return res
        if k == "unary" and n["op"] == "!":
            return [(st, (None if t is None else (not t))) for st, t in self.cond(n["e"], state)]
        if k == "letcond":
            res = []
            for o in self.eval(n["e"], state):
                if o.kind != "val":
                    continue
                matched, unmatched = self.split_pat(o.state, o.value, n["pat"])
                res.extend((s, True) for s in matched)
                res.extend((s, False) for s in unmatched)
            return res
        if k == "macro" and n["name"] == "matches" and "e" in n:
            res = []
            for o in self.eval(n["e"], state):
                if o.kind != "val":
                    continue
                matched, unmatched = self.split_pat(o.state, o.value, n["pat"], bind=False)
                res.extend((s, True) for s in matched)
                res.extend((s, False) for s in unmatched)
            return res
        if k == "binary" and n["op"] in ("==", "!="):
            res = []
            for o in self.eval_list([n["l"], n["r"]], state):
                if o.kind != "val":
                    continue
                a, b = o.value
                for st, t in self.eq_split(o.state, a, b, n):
                    if t is not None and n["op"] == "!=":
                        t = not t
                    res.append((st, t))
            return res
        if k == "binary" and n["op"] in ("<", ">", "<=", ">="):
            res = []
            for o in self.eval_list([n["l"], n["r"]], state):
                if o.kind != "val":
                    continue
                a, b = o.value
                if isinstance(a, Const) and isinstance(b, Const) and isint(a.v) and isint(b.v):
                    t = {"<": a.v < b.v, ">": a.v > b.v, "<=": a.v <= b.v, ">=": a.v >= b.v}[n["op"]]
                    res.append((o.state, t))
                else:
                    res.append((o.state, None))
            return res
        # generic expression evaluated to a boolean value
        res = []
        for o in self.eval(n, state):
            if o.kind != "val":
                continue
            v = o.value
            if isinstance(v, Const) and isinstance(v.v, bool):
                res.append((o.state, v.v))
            elif isinstance(v, Sym) and (v.ty == "bool" or v.ty is None):
                s1 = o.state.restrict(v.key, allowed=[True], universe=[True, False])
                s2 = o.state.restrict(v.key, allowed=[False], universe=[True, False])
                if s1 is not None:
                    res.append((s1, True))
                if s2 is not None:
                    res.append((s2, False))
            else:
                res.append((o.state, None))
        return res

    def eq_split(self, st, a, b, node):
        """Compare two abstract values: list of (state, truth|None)."""
        if isinstance(b, Sym) and not isinstance(a, Sym):
            a, b = b, a
        if isinstance(a, Const) and isinstance(b, Const):
            return [(st, a.v == b.v)]
        if isinstance(a, EnumV) and isinstance(b, EnumV):
            if a.enum == b.enum and a.variant != b.variant:
                return [(st, False)]
            if a.enum == b.enum and not a.payload and not b.payload:
                return [(st, True)]
            return [(st, None)]
        if isinstance(a, Sym):
            uni = self.enum_universe(a.ty)
            val = None
            if isinstance(b, Const):
                val = b.v
            elif isinstance(b, EnumV) and not b.payload:
                val = b.variant
                if uni is None and b.enum in self.facts.enums:
                    uni = self.facts.enum_variants(b.enum)
                # a payload-carrying variant compared by == : only the variant is decided
                flds = self.facts.variant_fields(b.enum, b.variant)
                if flds:
                    return [(st, None)]
            if val is not None:
                res = []
                s1 = st.restrict(a.key, allowed=[val], universe=uni)
                if s1 is not None:
                    res.append((s1, True))
                s2 = st.restrict(a.key, exclude=[val], universe=uni)
                if s2 is not None:
                    res.append((s2, False))
                return res
            if isinstance(b, EnumV) and b.payload:
                # refine the variant on the equal side only
                uni = self.enum_universe(a.ty) or (self.facts.enum_variants(b.enum) if b.enum in self.facts.enums else None)
                res = []
                s1 = st.restrict(a.key, allowed=[b.variant], universe=uni)
                if s1 is not None:
                    s1 = s1.with_atom(expr_text(node), True)
                    if s1 is not None:
                        res.append((s1, True))
                s2 = st.with_atom(expr_text(node), False)
                if s2 is not None:
                    res.append((s2, False))
                return res
        return [(st, None)]

    # ------------------------------------------------------------ patterns
    def split_pat(self, st, v, pat, bind=True):
        """-> (matched_states, unmatched_states)"""
        k = pat.get("k")
        if k == "wild" or k == "rest":
            return [st], []
        if k == "ident":
            # a bare identifier may be an imported unit variant (use Enum::*)
            name = pat["name"]
            if "sub" not in pat and name not in st.env:
                enums = self.facts.variant_index.get(name)
                vty = getattr(v, "ty", None) or (v.enum if isinstance(v, EnumV) else None)
                if name == "None" and not (vty is not None and norm_ty(vty) in (enums or [])):
                    # the prelude's Option::None, unless the scrutinee is known to be of a crate
                    # enum that has a variant of that name (VariableDefinition::None)
                    return self.split_variant(st, v, "Option", "None", [], None, bind)
                if enums and len(enums) == 1 and name[0].isupper():
                    flds = self.facts.variant_fields(enums[0], name)
                    if not flds:
                        return self.split_variant(st, v, enums[0], name, [], None, bind)
            if "sub" in pat:
                matched, unmatched = self.split_pat(st, v, pat["sub"], bind)
            else:
                matched, unmatched = [st], []
            if bind:
                out = []
                for s in matched:
                    s = s.copy()
                    s.env[name] = v
                    out.append(s)
                matched = out
            return matched, unmatched
        if k == "ref":
            return self.split_pat(st, v, pat["pat"], bind)
        if k == "or":
            matched, pending = [], [st]
            for alt in pat["alts"]:
                nxt = []
                for s in pending:
                    m, u = self.split_pat(s, v, alt, bind)
                    matched.extend(m)
                    nxt.extend(u)
                pending = nxt
            return self.merge_or(matched, v), pending
        if k == "lit":
            lit = pat["v"]
            if isinstance(v, Const):
                return ([st], []) if v.v == lit else ([], [st])
            if isinstance(v, Sym):
                m = st.restrict(v.key, allowed=[lit])
                u = st.restrict(v.key, exclude=[lit])
                return ([m] if m is not None else []), ([u] if u is not None else [])
            return self.atom_split(st, "%s is %r" % (describe(v), lit))
        if k == "path":
            var = self.variant_of_path(pat["segs"])
            if var is None:
                return self.atom_split(st, "%s is %s" % (describe(v), pat_text(pat)))
            return self.split_variant(st, v, var[0], var[1], [], None, bind)
        if k == "tstruct":
            var = self.variant_of_path(pat["segs"])
            if var is None:
                return self.atom_split(st, "%s is %s" % (describe(v), pat_text(pat)))
            return self.split_variant(st, v, var[0], var[1], pat["elems"], None, bind)
        if k == "struct":
            var = self.variant_of_path(pat["segs"])
            if var is None:
                # plain struct pattern: bind fields
                s = st.copy()
                for f in pat["fields"]:
                    fv = Unknown(f["name"])
                    if isinstance(v, StructV) and f["name"] in v.fields:
                        fv = v.fields[f["name"]]
                    elif isinstance(v, Sym):
                        fv = Sym(v.key + "." + f["name"], self.field_type(v.ty, f["name"]))
                    m, _ = self.split_pat(s, fv, f["pat"], bind)
                    if not m:
                        return [], [st]
                    s = m[0]
                return [s], []
            return self.split_variant(st, v, var[0], var[1], None, pat["fields"], bind)
        if k == "tuple":
            if isinstance(v, Tup) and len(v.elems) == len(pat["elems"]):
                cur = [st]
                un = []
                for pe, ve in zip(pat["elems"], v.elems):
                    nxt = []
                    for s in cur:
                        m, u = self.split_pat(s, ve, pe, bind)
                        nxt.extend(m)
                        un.extend(u)
                    cur = nxt
                return cur, un
            if isinstance(v, Sym):
                s = st
                mm = re.match(r"^\((.*)\)$", v.ty or "")
                parts = split_top(mm.group(1)) if mm else []
                cur = [st]
                un = []
                for i, pe in enumerate(pat["elems"]):
                    ty = norm_ty(parts[i]) if i < len(parts) else None
                    nxt = []
                    for s in cur:
                        m, u = self.split_pat(s, Sym("%s.%d" % (v.key, i), ty), pe, bind)
                        nxt.extend(m)
                        un.extend(u)
                    cur = nxt
                return cur, un
            s = st.copy()
            if bind:
                for name in pat_names(pat):
                    s.env[name] = Unknown(name)
            return [s], []
        # range / other: opaque
        return self.atom_split(st, "%s is %s" % (describe(v), pat_text(pat)))

    def merge_or(self, matched, v):
        """States produced by the alternatives of an or-pattern that differ only in
        the domain of the scrutinee are merged (keeps path counts small)."""
        if len(matched) <= 1 or not isinstance(v, Sym):
            return matched
        key = v.key
        base = matched[0]
        allowed = set()
        for s in matched:
            a, e = s.cons.get(key, (None, frozenset()))
            if a is None:
                return matched
            # everything else must be identical
            if s.env != base.env or s.atoms != base.atoms or len(s.events) != len(base.events):
                return matched
            other = {k2: v2 for k2, v2 in s.cons.items() if k2 != key}
            if other != {k2: v2 for k2, v2 in base.cons.items() if k2 != key}:
                return matched
            allowed |= a
        s = base.copy()
        s.cons[key] = (frozenset(allowed), frozenset())
        return [s]

    def atom_split(self, st, text):
        res_m, res_u = [], []
        s1 = st.with_atom(text, True)
        if s1 is not None:
            res_m.append(s1)
        s2 = st.with_atom(text, False)
        if s2 is not None:
            res_u.append(s2)
        return res_m, res_u

    def split_variant(self, st, v, enum, variant, elems, fields, bind):
        """Match value v against Enum::Variant(elems...) / Enum::Variant{fields}."""
        if isinstance(v, EnumV):
            if v.variant != variant:
                return [], [st]
            cur = [st]
            un = []
            if elems:
                for i, pe in enumerate(elems):
                    pv = v.payload[i] if i < len(v.payload) else Unknown("payload")
                    nxt = []
                    for s in cur:
                        m, u = self.split_pat(s, pv, pe, bind)
                        nxt.extend(m)
                        un.extend(u)
                    cur = nxt
            return cur, un
        if isinstance(v, Sym):
            uni = self.enum_universe(v.ty)
            if uni is None and enum in self.facts.enums:
                uni = self.facts.enum_variants(enum)
            if enum in ("Option", "Result"):
                uni = ["Some", "None"] if enum == "Option" else ["Ok", "Err"]
            m = st.restrict(v.key, allowed=[variant], universe=uni)
            u = st.restrict(v.key, exclude=[variant], universe=uni)
            matched = []
            un = [u] if u is not None else []
            if m is not None:
                cur = [m]
                flds = self.facts.variant_fields(enum, variant) or []
                if enum == "Option" and variant == "Some":
                    inner = generic_arg(v.ty, "Option")
                    flds = [{"name": None, "ty": inner}]
                if enum == "Result":
                    mm = re.match(r"^Result\s*<\s*(.*)\s*>$", v.ty or "")
                    parts = split_top(mm.group(1)) if mm else []
                    idx = 0 if variant == "Ok" else 1
                    flds = [{"name": None, "ty": parts[idx] if idx < len(parts) else None}]
                if elems:
                    for i, pe in enumerate(elems):
                        ty = norm_ty(flds[i]["ty"]) if i < len(flds) and flds[i]["ty"] else None
                        pv = Sym("%s.%d" % (v.key, i), ty)
                        nxt = []
                        for s in cur:
                            mm2, uu = self.split_pat(s, pv, pe, bind)
                            nxt.extend(mm2)
                            # a sub-pattern mismatch keeps the variant but fails the match
                            un.extend(uu)
                        cur = nxt
                if fields:
                    for f in fields:
                        ty = None
                        for fd in flds:
                            if fd["name"] == f["name"]:
                                ty = norm_ty(fd["ty"])
                        pv = Sym("%s.%s" % (v.key, f["name"]), ty)
                        nxt = []
                        for s in cur:
                            mm2, uu = self.split_pat(s, pv, f["pat"], bind)
                            nxt.extend(mm2)
                            un.extend(uu)
                        cur = nxt
                matched = cur
            return matched, un
        # unknown scrutinee: opaque atom, bind sub-pattern names to unknowns
        text = "%s is %s::%s" % (describe(v), enum, variant)
        m, u = self.atom_split(st, text)
        out = []
        for s in m:
            s = s.copy()
            if bind:
                for i, pe in enumerate(elems or []):
                    for name in pat_names(pe):
                        s.env[name] = Unknown("%s.%d" % (describe(v), i))
                for f in (fields or []):
                    for name in pat_names(f["pat"]):
                        s.env[name] = Unknown(name)
            out.append(s)
        return out, u


class BinOp(Val):
    __slots__ = ("op", "a", "b")

    def __init__(self, op, a, b):
        self.op = op
        self.a = a
        self.b = b

    def __repr__(self):
        return "(%r %s %r)" % (self.a, self.op, self.b)


def isint(x):
    return isinstance(x, int) and not isinstance(x, bool)


def describe(v):
    if isinstance(v, Sym):
        return v.key
    if isinstance(v, Unknown):
        return v.text
    return repr(v)


def pat_names(p):
    k = p.get("k")
    if k == "ident":
        out = [p["name"]]
        if "sub" in p:
            out += pat_names(p["sub"])
        return out
    if k in ("tstruct", "tuple", "slice"):
        out = []
        for e in p["elems"]:
            out += pat_names(e)
        return out
    if k == "struct":
        out = []
        for f in p["fields"]:
            out += pat_names(f["pat"])
        return out
    if k == "or":
        return pat_names(p["alts"][0]) if p["alts"] else []
    if k == "ref":
        return pat_names(p["pat"])
    return []


def split_top(s):
    parts, depth, cur = [], 0, ""
    for ch in s:
        if ch in "<([":
            depth += 1
        elif ch in ">)]":
            depth -= 1
        if ch == "," and depth == 0:
            parts.append(cur.strip())
            cur = ""
        else:
            cur += ch
    if cur.strip():
        parts.append(cur.strip())
    return parts


def wrap_hook(st, r):
    if isinstance(r, list):
        return r
    if isinstance(r, Val):
        return [Outcome("val", st, r)]
    if isinstance(r, tuple) and len(r) == 2:
        return [Outcome("val", r[0], r[1])]
    return [Outcome("val", st, Unknown("hook"))]


def merge_bool_outcomes(res):
    return res
