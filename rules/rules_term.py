"""Termination rules (C16: compilation never loops forever / never overflows the stack by
unbounded recursion).

T-LOOP-PROGRESS  every `loop` / `while` of the crate makes progress, in a recognised
                 well-founded measure, on every path from the loop head back to the loop head.
T-REC-BOUND      every recursive cycle of the crate's call graph descends a finite structure,
                 is cut by a visited set, or is cut by an explicit depth bound.

Both are "must" analyses over the syntax tree (no path enumeration: the optimiser's main loop
has far too many paths), compositional over blocks / if / match.
"""
import re

from astlib import walk, expr_text, pat_text, children, is_panic_macro
from core import rule

# ---------------------------------------------------------------------------
# helpers

ADVANCE_METHODS = {"next", "next_back", "read_line", "read_until", "next_if", "next_if_eq"}


def root_name(n):
    """Root variable of a place/receiver expression: `a.b[c].d()` -> 'a'; `self.f.g` -> 'self.f'."""
    while True:
        k = n.get("k")
        if k == "path":
            return n["segs"][0] if len(n["segs"]) == 1 else None
        if k == "field":
            b = n["base"]
            if b.get("k") == "path" and b["segs"] == ["self"]:
                return "self." + n["name"]
            n = b
        elif k == "index":
            n = n["base"]
        elif k == "mcall":
            n = n["recv"]
        elif k in ("unary", "ref", "try", "cast"):
            n = n["e"]
        else:
            return None


def pat_names(p):
    """Binder names of a pattern (from its text; good enough for identifiers)."""
    if p is None:
        return set()
    t = pat_text(p) if isinstance(p, dict) else str(p)
    names = set(re.findall(r"\b([a-z_][a-z0-9_]*)\b", t))
    return names - {"mut", "ref", "_", "true", "false"}


def declared_in(node):
    """Names bound by let / patterns / for / closures anywhere inside node."""
    out = set()
    for n in walk(node):
        k = n.get("k")
        if k == "let":
            out |= pat_names(n.get("pat"))
        elif k == "letcond":
            out |= pat_names(n.get("pat"))
        elif k == "for":
            out |= pat_names(n.get("pat"))
        elif k == "match":
            for a in n["arms"]:
                out |= pat_names(a.get("pat"))
    return out


def is_positive(e):
    """Syntactically positive integer expression: literal >= 1, `x + <positive>`, `<positive> + x`."""
    k = e.get("k")
    if k == "lit" and e.get("ty") == "int":
        try:
            return int(e["v"]) >= 1
        except (TypeError, ValueError):
            return False
    if k == "binary" and e["op"] == "+":
        return is_positive(e["l"]) or is_positive(e["r"])
    if k == "mcall" and e["method"] == "len" and e["recv"].get("k") == "lit" and e["recv"].get("ty") == "str":
        return len(e["recv"]["v"]) >= 1
    if k == "cast":
        return is_positive(e["e"])
    return False


def mentions(node, name):
    for n in walk(node):
        if n.get("k") == "path" and len(n["segs"]) == 1 and n["segs"][0] == name:
            return True
        if name.startswith("self.") and n.get("k") == "field" and n["name"] == name[5:] and n["base"].get("k") == "path" and n["base"]["segs"] == ["self"]:
            return True
    return False


class LoopCtx:
    def __init__(self, fn, loop, ordinal):
        self.fn = fn
        self.loop = loop
        self.ordinal = ordinal
        self.body = loop["body"]
        self.cond = loop.get("cond")
        self.inner_decl = declared_in(self.body)
        if self.cond is not None and self.cond.get("k") == "letcond":
            self.inner_decl |= pat_names(self.cond.get("pat"))
        # variables that control an exit: mentioned in the loop condition, in the condition of an
        # `if` / scrutinee of a `match` whose body contains an exit
        self.exit_vars = set()
        conds = []
        if self.cond is not None:
            conds.append(self.cond)
        for n in self.walk_own(self.body):
            k = n.get("k")
            if k == "if" and has_exit(n):
                conds.append(n["cond"])
            elif k == "match" and has_exit(n):
                conds.append(n["e"])
        self.exit_conds = conds
        self.direct_exit_conds = set()
        for n in self.walk_own(self.body):
            if n.get("k") == "if":
                t = n["then"]
                st = t.get("stmts", []) if t.get("k") == "block" else [t]
                if st and all(x.get("k") in ("break", "return") for x in st):
                    self.direct_exit_conds.add(id(n["cond"]))
        for c in conds:
            for m in walk(c):
                if m.get("k") == "path" and len(m["segs"]) == 1:
                    self.exit_vars.add(m["segs"][0])
                r = root_name(m) if m.get("k") == "field" else None
                if r and r.startswith("self."):
                    self.exit_vars.add(r)
        # flags: bool variables assigned literals inside the loop
        self.flag_assigns = {}
        for n in walk(self.body):
            if n.get("k") == "assign" and n["r"].get("k") == "lit" and n["r"].get("ty") == "bool":
                r = root_name(n["l"])
                if r:
                    self.flag_assigns.setdefault(r, set()).add(bool(n["r"]["v"]))
        # split iterators over a loop variable: let mut s = v.split..(..)
        self.split_iters = {}
        for n in walk(self.body):
            if n.get("k") == "let" and n.get("init") is not None:
                txt = expr_text(n["init"])
                if re.search(r"\.(splitn|split|split_once|split_terminator)\(", txt):
                    src = root_name(n["init"])
                    for nm in pat_names(n.get("pat")):
                        self.split_iters[nm] = src
        self.notes = []

    def walk_own(self, node):
        """Walk node without descending into closures (their bodies run elsewhere)."""
        stack = [node]
        while stack:
            n = stack.pop()
            if isinstance(n, dict):
                yield n
                if n.get("k") == "closure":
                    continue
                stack.extend(reversed(list(children(n))))


def has_exit(node):
    for n in walk(node):
        k = n.get("k")
        if k in ("break", "return", "try") or is_panic_macro(n):
            return True
    return False


def exit_value_of_flag(ctx, name):
    """For `while !done` the exit value of `done` is True; for `while restart` it is False.
    For `loop { .. if !changed { break } }` the exit value of `changed` is False."""
    vals = set()
    for c in ctx.exit_conds:
        t = expr_text(c).replace(" ", "")
        if c is ctx.cond:
            if t == name:
                vals.add(False)
            elif t == "!" + name:
                vals.add(True)
        elif id(c) in ctx.direct_exit_conds:
            # `if <cond> { break }`: the loop is left when cond holds
            if re.search(r"(^|[|&(])!%s($|[|&)])" % re.escape(name), t):
                vals.add(False)
            elif re.search(r"(^|[|&(])%s($|[|&)])" % re.escape(name), t):
                vals.add(True)
    return vals


def progress_of(n, ctx):
    """Kind of progress made by evaluating node n itself (not its children), or None."""
    k = n.get("k")
    if k == "mcall" and n["method"] in ADVANCE_METHODS:
        r = root_name(n["recv"])
        if r is not None and r not in ctx.inner_decl:
            return "advance:%s.%s()" % (r, n["method"])
        return None
    if k == "assignop" and n["op"] in ("+=", "-=", "+", "-") and is_positive(n["r"]):
        r = root_name(n["l"])
        if r is not None and r not in ctx.inner_decl:
            # the counter must feed an exit decision (not a statistic)
            if r in ctx.exit_vars or counter_feeds_exit(ctx, r, n):
                return "counter:%s" % r
        return None
    if k == "assign":
        l = n["l"]
        r = root_name(l)
        if r is None or r in ctx.inner_decl:
            return None
        rhs = n["r"]
        # shrink: v = &v[a..]
        e = rhs
        while e.get("k") in ("ref", "unary"):
            e = e["e"]
        if e.get("k") == "index" and root_name(e["base"]) == r and e["idx"].get("k") == "range" and e["idx"].get("start") is not None and e["idx"].get("end") is None:
            if is_positive(e["idx"]["start"]):
                return "shrink:%s" % r
            return None
        # remainder of a split over the same variable
        if rhs.get("k") == "path" and len(rhs["segs"]) == 1:
            src = ctx.split_binders().get(rhs["segs"][0])
            if src == r:
                return "split-remainder:%s" % r
        # empty literal for an emptiness-controlled loop
        if rhs.get("k") == "lit" and rhs.get("ty") == "str" and rhs.get("v") == "" and ctx.cond is not None and re.match(r"^!\s*%s\s*\.\s*is_empty\s*\(\s*\)$" % re.escape(r), expr_text(ctx.cond)):
            return "emptied:%s" % r
        # flag set to its exit value, never re-armed inside the loop
        if rhs.get("k") == "lit" and rhs.get("ty") == "bool":
            ev = exit_value_of_flag(ctx, r)
            val = bool(rhs["v"])
            if ev == {val} and ctx.flag_assigns.get(r) == {val}:
                return "flag:%s=%s" % (r, str(val).lower())
        return None
    return None


def counter_feeds_exit(ctx, name, self_node):
    """The counter is used (outside its own increment and outside returned values) as an index
    or argument from which an exit condition is computed."""
    for m in ctx.walk_own(ctx.body):
        if m is self_node:
            continue
        k = m.get("k")
        if k == "index" and mentions(m["idx"], name):
            return True
        if k == "mcall" and m["method"] in ("get", "nth") and any(mentions(a, name) for a in m["args"]):
            return True
        if k == "if" and mentions(m["cond"], name):
            return True
    return False


def _split_binders(ctx):
    """Names bound to the 2nd+ piece of a split iterator declared in the loop body, mapped to the
    variable that was split."""
    if hasattr(ctx, "_sb"):
        return ctx._sb
    out = {}
    seen_first = {}
    # order of appearance approximates evaluation order well enough: the first `.next()` on a
    # split iterator yields the head (never a remainder)
    for n in ctx.walk_own(ctx.body):
        k = n.get("k")
        holder = None
        it = None
        if k == "match" and n["e"].get("k") == "mcall" and n["e"]["method"] == "next":
            it = root_name(n["e"]["recv"])
            holder = [a.get("pat") for a in n["arms"]]
        elif k == "letcond" and n["e"].get("k") == "mcall" and n["e"]["method"] == "next":
            it = root_name(n["e"]["recv"])
            holder = [n.get("pat")]
        elif k == "mcall" and n["method"] == "next":
            it = root_name(n["recv"])
            if it in ctx.split_iters and it not in seen_first:
                seen_first[it] = n
            continue
        if it in ctx.split_iters:
            if it not in seen_first:
                seen_first[it] = n["e"]
                continue
            if seen_first[it] is n["e"]:
                continue
            for p in holder:
                for nm in pat_names(p):
                    out[nm] = ctx.split_iters[it]
    ctx._sb = out
    return out


LoopCtx.split_binders = _split_binders


def merge(a, b):
    if a is None:
        return b
    if b is None:
        return a
    return a and b


class Flow:
    __slots__ = ("ft", "cont", "why")

    def __init__(self, ft, cont=None):
        self.ft = ft      # None: no path falls through; True/False: every such path made progress?
        self.cont = cont  # same for paths leaving through `continue`


def expr_progress(n, ctx, found):
    """Progress events in an expression evaluated unconditionally (no control flow inside is
    followed; nested control nodes are handled by flow())."""
    for m in ctx.walk_own(n):
        p = progress_of(m, ctx)
        if p:
            found.append(p)
            return True
    return False


CONTROL = {"block", "if", "match", "loop", "while", "for", "break", "continue", "return"}


def flow(n, had, ctx, found):
    """Abstractly execute node n entered with `had` (progress made on every path so far)."""
    k = n.get("k")
    if k == "block":
        cur = had
        cont = None
        for s in n["stmts"]:
            f = flow(s, cur, ctx, found)
            cont = merge(cont, f.cont)
            if f.ft is None:
                return Flow(None, cont)
            cur = f.ft
        return Flow(cur, cont)
    if k == "break" or k == "return" or is_panic_macro(n):
        return Flow(None)
    if k == "continue":
        return Flow(None, had)
    if k == "if":
        c = n["cond"]
        h = had or expr_progress(c, ctx, found)
        ht = h
        xp = EXTRA_PROGRESS.get(ctx.ordinal)
        if xp and re.sub(r"\s+", "", expr_text(c)) == xp[0]:
            why = xp[1](ctx)
            if why is None:
                ht = True
                found.append("rule-disabling-rewrite:" + xp[0])
            else:
                ctx.notes.append(why)
        t = flow(n["then"], ht, ctx, found)
        if "else" in n and n["else"] is not None:
            e = flow(n["else"], h, ctx, found)
        else:
            e = Flow(h)
        return Flow(merge(t.ft, e.ft), merge(t.cont, e.cont))
    if k == "match":
        h = had or expr_progress(n["e"], ctx, found)
        ft = None
        cont = None
        for a in n["arms"]:
            hh = h
            if "guard" in a and a["guard"] is not None:
                hh = hh or expr_progress(a["guard"], ctx, found)
            f = flow(a["body"], hh, ctx, found)
            ft = merge(ft, f.ft)
            cont = merge(cont, f.cont)
        return Flow(ft, cont)
    if k in ("loop", "while", "for"):
        # a nested loop: its break/continue are its own.  `while`/`for` evaluate their
        # condition / iterator at least once; an infinite `loop` runs the straight-line prefix of
        # its body at least once.
        h = had
        if k == "while":
            h = h or expr_progress(n["cond"], ctx, found)
        elif k == "for":
            h = h or expr_progress(n["iter"], ctx, found)
        else:
            body = n["body"]
            for s in body.get("stmts", []):
                if has_exit(s) or any(m.get("k") == "continue" for m in walk(s)):
                    # up to the first statement that may leave: its unconditional part still counts
                    if s.get("k") in ("let", "assign") :
                        pass
                    break
                if not any(m.get("k") in CONTROL for m in ctx.walk_own(s) if m is not s) and s.get("k") not in CONTROL:
                    h = h or expr_progress(s, ctx, found)
        # returns inside the nested loop leave everything; nothing else escapes to our level
        only_returns = True
        return Flow(h if can_leave_loop(n) else None)
    if k == "let":
        init = n.get("init")
        h = had
        if init is not None:
            if init.get("k") in CONTROL:
                f = flow(init, had, ctx, found)
                if "else" in n and n.get("else") is not None:
                    pass
                return f
            h = had or expr_progress(init, ctx, found)
        return Flow(h)
    if k == "closure":
        return Flow(had)
    # plain expression / assignment / call / macro: look for control flow nested inside
    # (e.g. `x = if c { a } else { b }`, `foo(match ..)`)
    nested = [m for m in children(n) if isinstance(m, dict)]
    h = had
    p = progress_of(n, ctx)
    if p:
        found.append(p)
        h = True
    cont = None
    for m in nested:
        if m.get("k") in CONTROL or any(x.get("k") in CONTROL for x in ctx.walk_own(m)):
            f = flow(m, h, ctx, found)
            cont = merge(cont, f.cont)
            if f.ft is None:
                return Flow(None, cont)
            h = f.ft
        else:
            h = h or expr_progress(m, ctx, found)
    return Flow(h, cont)


def can_leave_loop(n):
    """A `loop {}` without break can only be left by return: nothing falls through."""
    if n.get("k") != "loop":
        return True
    depth_break = False
    stack = [(n["body"], 0)]
    while stack:
        m, d = stack.pop()
        if not isinstance(m, dict):
            continue
        k = m.get("k")
        if k == "break" and d == 0:
            return True
        if k == "closure":
            continue
        nd = d + 1 if k in ("loop", "while", "for") else d
        for c in children(m):
            stack.append((c, nd))
    return depth_break


def _pinned(cond):
    """{var: set(mnemonics)} for a condition that is a conjunction of `v.mnemonic == AsmMnemonic::M`
    tests (a disjunction of such tests on ONE variable counts as one conjunct); None if the
    condition has another shape in the parts that mention `.mnemonic`."""
    out = {}

    def conj(e):
        if e.get("k") == "binary" and e["op"] == "&&":
            return conj(e["l"]) + conj(e["r"])
        return [e]

    def disj(e):
        if e.get("k") == "binary" and e["op"] == "||":
            return disj(e["l"]) + disj(e["r"])
        return [e]

    for c in conj(cond):
        vs = None
        ms = set()
        okc = True
        for d in disj(c):
            if d.get("k") == "binary" and d["op"] == "==" and d["l"].get("k") == "field" and d["l"]["name"] == "mnemonic" and d["r"].get("k") == "path":
                v = root_name(d["l"]["base"])
                if vs is None:
                    vs = v
                if v != vs:
                    okc = False
                ms.add(d["r"]["segs"][-1])
            else:
                okc = False
        if vs is not None:
            if not okc:
                return None
            out[vs] = out[vs] & ms if vs in out else ms
    return out


def swap_premise(ctx):
    """The optimiser's swap rewrite exchanges two adjacent lines and does not advance the cursor:
    it terminates because the swapped pair can no longer match any swap rule.  Checked: every
    `swap_both = true` sits under a test pinning the first line to one mnemonic A and the second
    to a set B, and for every two swap rules (A, B), (A', B'): no b in B equals A' with A in B'."""
    rules = []

    def visit(n, conds):
        k = n.get("k")
        if k == "assign" and root_name(n["l"]) == "swap_both" and n["r"].get("k") == "lit" and n["r"]["v"] is True:
            rules.append(list(conds))
        if k == "if":
            visit(n["then"], conds + [n["cond"]])
            if n.get("else") is not None:
                visit(n["else"], conds)
            return
        for c in children(n):
            visit(c, conds)

    visit(ctx.body, [])
    if not rules:
        return "no `swap_both = true` found although a branch on it exists"
    pins = []
    for conds in rules:
        pin = {}
        for c in conds:
            if c.get("k") == "letcond":
                continue
            p = _pinned(c)
            if p is None:
                return "a swap rule's guard is not a conjunction of mnemonic tests: %s" % expr_text(c)[:80]
            for v, ms in p.items():
                pin[v] = pin[v] & ms if v in pin else set(ms)
        vs = sorted(pin)
        if len(vs) != 2:
            return "a swap rule does not pin the mnemonics of both lines (pins: %s)" % sorted(pin)
        pins.append((pin[vs[0]], pin[vs[1]]))
    for a, b in pins:
        for a2, b2 in pins:
            # after the swap the first line has a mnemonic of b, the second one of a
            if (b & a2) and (a & b2):
                return "after a swap (first in %s, second in %s) the pair matches a swap rule again: the two lines are exchanged for ever" % (sorted(b), sorted(a))
    return None


# a branch that rewrites the two current lines so that the rule that fired cannot fire again,
# without advancing the cursor: (loop key) -> (condition text, premise check)
EXTRA_PROGRESS = {
    "optimize:loop#2": ("swap_both", swap_premise),
}


# loops whose measure is none of the recognised idioms; each entry names the measure and why it
# is well-founded.  Keyed by function and loop identity (condition text, or ordinal among the
# function's `loop`s) - never by position.
LOOP_EXCEPTIONS = {
    "check_branches:while(restart)":
        "each iteration that keeps `restart` true repairs one out-of-range conditional branch: the branch is replaced by an "
        "inverted branch over a JMP (distance 3, in range for ever), so the number of conditional branches that can be out "
        "of range strictly decreases; the scan/repair structure itself is decided by T-LB-RANGE (restart, clean-scan)",
    "generate_function_call:loop#1":
        "walks the right spine of the comma expression holding the call's arguments: `p` is replaced by a clone of the "
        "right operand of `p` itself (next = Some(rhs) of the BinOp destructured from &p), a strict sub-tree; the loop is left "
        "when there is no right operand",
}


def loops_of(fn):
    """(key, node) for every loop / while in fn, closures excluded from ordinal counting? no:
    included - a loop inside a closure still runs."""
    out = []
    nloop = 0
    for n in walk(fn["body"]):
        k = n.get("k")
        if k == "loop":
            nloop += 1
            out.append(("%s:loop#%d" % (fn["name"], nloop), n))
        elif k == "while":
            out.append(("%s:while(%s)" % (fn["name"], re.sub(r"\s+", "", expr_text(n["cond"]))[:60]), n))
    return out


@rule("T-LOOP-PROGRESS", floor=18,
      text="every `loop` and `while` of the crate makes progress in a well-founded measure on every path from its head back to "
           "its head: it advances an iterator or reader created outside the loop, moves a counter that feeds an exit test, "
           "shrinks the string it scans (`v = &v[k..]`, k >= 1, or the remainder of a split of v), or sets the flag its "
           "condition tests to the exit value without ever re-arming it inside the loop.  A loop that runs until a re-armable "
           "flag stays clear (a fixed-point iteration) must in addition count its passes and leave when the count passes a "
           "bound.  `for` loops iterate finite collections the borrow checker keeps unchanged and are not examined.")
def t_loop_progress(facts, res, tier):
    seen_keys = {}
    for fn in facts.fns:
        for key, node in loops_of(fn):
            n = seen_keys.get(key, 0)
            seen_keys[key] = n + 1
            if n:
                key = "%s~%d" % (key, n + 1)
            ctx = LoopCtx(fn, node, key)
            found = []
            had0 = False
            if node["k"] == "while":
                had0 = expr_progress(node["cond"], ctx, found)
            f = flow(node["body"], had0, ctx, found)
            ok_ft = f.ft is None or f.ft
            ok_cont = f.cont is None or f.cont
            rid = "T-LOOP-PROGRESS:" + key
            # fixed-point loops: an exit flag that is assigned both values inside the loop
            rearmed = [v for v in sorted(ctx.exit_vars) if ctx.flag_assigns.get(v) == {True, False} and exit_value_of_flag(ctx, v)]
            sample = {"where": facts.where(fn, node), "measures": sorted(set(found)), "exit_vars": sorted(ctx.exit_vars)[:8]}
            if key in LOOP_EXCEPTIONS:
                sample["exception"] = LOOP_EXCEPTIONS[key]
                res.inst(rid, True, sample)
                res.note("exception %s: %s" % (key, LOOP_EXCEPTIONS[key]))
                continue
            # a search for an unused name: `while M.get(&k).is_some() { k = format!(.. c ..); c += 1; }` - every pass names a larger
            # count, the names of different counts differ, and M (not touched in the loop) is finite
            if node["k"] == "while" and not (ok_ft and ok_cont):
                ct = expr_text(node["cond"]).replace(" ", "")
                mm = re.match(r"^\(?(.+?)\.(?:get\(&?(\w+)\)\.is_some\(\)|contains_key\(&?(\w+)\))\)?$", ct)
                if mm:
                    mp, kn = mm.group(1), mm.group(2) or mm.group(3)
                    body_nodes = list(walk(node["body"]))
                    renames = [x for x in body_nodes if x.get("k") == "assign" and expr_text(x["l"]).strip() == kn and x["r"].get("k") == "macro" and x["r"].get("name") == "format"]
                    # the count moves on every pass: the increment is a statement of the loop body itself, not of a branch inside it
                    steps = [expr_text(x["l"]).replace(" ", "") for x in node["body"].get("stmts", []) if x.get("k") == "assignop" and x.get("op") == "+" and x["r"].get("k") == "lit" and isinstance(x["r"].get("v"), int) and x["r"]["v"] >= 1]
                    grows = [c for c in steps if renames and any(c in expr_text(r["r"]).replace(" ", "") for r in renames)]
                    touches = [x for x in body_nodes if x.get("k") == "mcall" and x["method"] in ("insert", "remove", "clear", "retain") and expr_text(x["recv"]).replace(" ", "") == mp]
                    exits = [x for x in body_nodes if x.get("k") in ("continue",)]
                    if renames and grows and not touches and not exits:
                        sample["measures"] = sorted(set(found) | {"fresh-name:%s" % grows[0]})
                        res.inst(rid, True, sample)
                        continue
            # filling up to a length: `while v.len() < n { ..; v.push(..); }` - the push is a statement of the body itself (taken on every
            # pass), nothing in the body shrinks v or assigns n: the distance n - v.len() decreases by at least one per pass
            if node["k"] == "while" and not (ok_ft and ok_cont):
                ct = expr_text(node["cond"]).replace(" ", "").strip("()")
                mm = re.match(r"^(\w+)\.len\(\)(<|<=|!=)(\w+)$", ct)
                if mm:
                    vec, bound = mm.group(1), mm.group(3)
                    top = node["body"].get("stmts", [])
                    pushes = [x for x in top if x.get("k") == "mcall" and x["method"] in ("push", "push_str", "push_back") and expr_text(x["recv"]).replace(" ", "") == vec]
                    body_nodes = list(walk(node["body"]))
                    shrinks = [x for x in body_nodes if x.get("k") == "mcall" and x["method"] in ("pop", "clear", "truncate", "remove", "drain", "retain", "split_off") and expr_text(x["recv"]).replace(" ", "") == vec]
                    rebinds = [x for x in body_nodes if x.get("k") in ("assign", "assignop") and expr_text(x["l"]).replace(" ", "") in (vec, bound)]
                    exits = [x for x in body_nodes if x.get("k") == "continue"]
                    if pushes and not shrinks and not rebinds and not exits and (mm.group(2) != "!=" or len(pushes) == 1):
                        sample["measures"] = sorted(set(found) | {"fill-to-length:%s.len()->%s" % (vec, bound)})
                        res.inst(rid, True, sample)
                        # the loop ends, but after `bound` allocations: a length read from the source is limited first
                        # (`if bound > <constant> { return Err(..) }` earlier in the function), or memory is what ends it
                        line = int(str(node.get("loc", "0")).split(":")[0])
                        limits = [x for x in walk(fn["body"]) if x.get("k") == "if" and x.get("else") is None
                                  and re.match(r"^%s>=?(0x[0-9a-fA-F_]+|\d[\d_]*)(usize)?$" % re.escape(bound), expr_text(x["cond"]).replace(" ", "").strip("()"))
                                  and int(str(x.get("loc", "0")).split(":")[0]) < line
                                  and any(y.get("k") == "return" for y in walk(x["then"]))]
                        sample["length_limited_by"] = [expr_text(x["cond"]) for x in limits]
                        if not limits:
                            res.fail(rid + ":fill-unbounded", facts.where(fn, node),
                                     "%s pushes onto `%s` until it has `%s` elements, and nothing limits `%s` first: a length written in the source "
                                     "(`const char s[2000000000] = \"a\"`) is allocated element by element until the process is killed" % (fn["name"], vec, bound, bound),
                                     sample)
                        continue
            res.inst(rid, True, sample)
            if rearmed:
                # needs a bounded pass counter
                counters = [p for p in set(found) if p.startswith("counter:")]
                bounded = False
                for c in counters:
                    cname = c.split(":", 1)[1]
                    for ec in ctx.exit_conds:
                        if mentions(ec, cname) and any(m.get("k") == "binary" and m["op"] in (">", ">=", "<", "<=", "==") and (mentions(m["l"], cname) or mentions(m["r"], cname)) for m in walk(ec)):
                            bounded = True
                if not (bounded and ok_ft and ok_cont):
                    res.fail(rid + ":fixed-point-unbounded", facts.where(fn, node),
                             "%s iterates until the flag `%s` stays clear, and the flag is set again inside the loop: nothing bounds the number of passes "
                             "(a self-referential rewrite keeps it going for ever); a pass counter compared with a bound in the exit test is required" % (fn["name"], rearmed[0]),
                             sample)
                continue
            if not (ok_ft and ok_cont):
                which = "the end of the body" if not ok_ft else "a `continue`"
                res.fail(rid, facts.where(fn, node),
                         "%s: a path through this loop reaches %s without advancing an iterator, moving a counter that feeds an exit test, "
                         "shrinking the scanned text or setting the exit flag: the loop can spin for ever (measures seen on other paths: %s)" % (
                             fn["name"], which, ", ".join(sorted(set(found))) or "none") + ("; " + "; ".join(ctx.notes) if ctx.notes else ""),
                         sample)


# ---------------------------------------------------------------------------
# recursion

TREE_TY = re.compile(r"\b(Pair|Pairs|Expr|Statement|StatementLoc)\b")


def _norm_mir(p):
    p = re.sub(r"::<[^<>]*(<[^<>]*>)?[^<>]*>", "", p)
    segs = [s for s in p.split("::") if not s.startswith("{closure")]
    return "::".join(segs)


def _sccs(G):
    import sys
    sys.setrecursionlimit(max(10000, sys.getrecursionlimit()))
    idx, low, st, on, out, cnt = {}, {}, [], set(), [], [0]

    def sc(v):
        idx[v] = low[v] = cnt[0]
        cnt[0] += 1
        st.append(v)
        on.add(v)
        for w in G.get(v, ()):
            if w not in G:
                continue
            if w not in idx:
                sc(w)
                low[v] = min(low[v], low[w])
            elif w in on:
                low[v] = min(low[v], idx[w])
        if low[v] == idx[v]:
            comp = []
            while True:
                w = st.pop()
                on.discard(w)
                comp.append(w)
                if w == v:
                    break
            if len(comp) > 1 or v in G.get(v, ()):
                out.append(sorted(comp))
    for v in sorted(G):
        if v not in idx:
            sc(v)
    return out


def _call_nodes(fn, callee_name, line):
    out = []
    for n in walk(fn["body"]):
        if n.get("k") in ("call", "mcall") and n["loc"].split(":")[0] == str(line):
            nm = n["method"] if n["k"] == "mcall" else (n["func"].get("segs") or ["?"])[-1]
            if nm == callee_name:
                out.append(n)
    return out


def _shadowed_at(fn, target):
    """Names re-bound by patterns (match arms, if-let, for, let, closures) in the scopes that
    enclose node `target` inside fn."""
    result = [None]

    def visit(n, bound):
        if n is target:
            result[0] = set(bound)
            return True
        k = n.get("k")
        if k == "match":
            if visit(n["e"], bound):
                return True
            for a in n["arms"]:
                b2 = bound | pat_names(a.get("pat"))
                if a.get("guard") is not None and visit(a["guard"], b2):
                    return True
                if visit(a["body"], b2):
                    return True
            return False
        if k == "if":
            c = n["cond"]
            b2 = bound
            if c.get("k") == "letcond":
                if visit(c["e"], bound):
                    return True
                b2 = bound | pat_names(c.get("pat"))
            elif visit(c, bound):
                return True
            if visit(n["then"], b2):
                return True
            if n.get("else") is not None and visit(n["else"], bound):
                return True
            return False
        if k == "for":
            if visit(n["iter"], bound):
                return True
            return visit(n["body"], bound | pat_names(n.get("pat")))
        if k == "while":
            c = n["cond"]
            b2 = bound
            if c.get("k") == "letcond":
                if visit(c["e"], bound):
                    return True
                b2 = bound | pat_names(c.get("pat"))
            elif visit(c, bound):
                return True
            return visit(n["body"], b2)
        if k == "closure":
            b2 = bound | pat_names({"k": "x", "text": " ".join(str(p) for p in n.get("params", []))}) if False else bound | set(re.findall(r"\b([a-z_][a-z0-9_]*)\b", " ".join(str(p) for p in n.get("params", []))))
            return visit(n["body"], b2) if isinstance(n.get("body"), dict) else False
        if k == "block":
            b2 = set(bound)
            for s in n["stmts"]:
                if visit(s, b2):
                    return True
                if s.get("k") == "let":
                    b2 |= pat_names(s.get("pat"))
            return False
        for c in children(n):
            if visit(c, bound):
                return True
        return False

    visit(fn["body"], set())
    return result[0]


def _depth_guard(fn, call):
    """An `if <stack>.len() >= K { return Err(..) }` executed before `call` in the same or an
    enclosing block, with a push on the same stack between the guard and the call."""
    found = [None]

    def visit(block_stmts_stack, n):
        k = n.get("k")
        if n is call:
            # scan the enclosing blocks' earlier statements
            for stmts, upto in block_stmts_stack:
                guard_i = None
                stack_name = None
                for i in range(upto):
                    s = stmts[i]
                    if s.get("k") == "if" and s.get("else") is None:
                        ct = re.sub(r"\s+", "", expr_text(s["cond"]))
                        while ct.startswith("(") and ct.endswith(")"):
                            ct = ct[1:-1]
                        m = re.match(r"^([\w.]+)\.len\(\)(>=|>)(\d+)$", ct)
                        body = s["then"].get("stmts", []) if s["then"].get("k") == "block" else [s["then"]]
                        if m and body and all(b.get("k") == "return" for b in body) and "Err" in expr_text(body[0]):
                            guard_i, stack_name, bound = i, m.group(1), int(m.group(3))
                if guard_i is not None:
                    pushed = any(re.sub(r"\s+", "", expr_text(stmts[j])).startswith(stack_name + ".push(") for j in range(guard_i + 1, upto))
                    popped = any(re.sub(r"\s+", "", expr_text(stmts[j])).startswith(stack_name + ".pop(") for j in range(guard_i + 1, upto))
                    if pushed and not popped:
                        found[0] = (stack_name, bound)
                        return True
            return True
        if k == "block":
            for i, s in enumerate(n["stmts"]):
                if visit(block_stmts_stack + [(n["stmts"], i)], s):
                    return True
            return False
        for c in children(n):
            if visit(block_stmts_stack, c):
                return True
        return False

    visit([], fn["body"])
    return found[0]


def _edge_kinds(ast, fa, callee, own_params):
    """Kinds of tree node (Expr variant, with the operator for BinOp) for which `fa` hands its own
    tree parameter to `callee`; None = undetermined (any)."""
    import genmodel
    from walker import Sym
    if genmodel.GEN_QUAL not in fa.get("qual", ""):
        return None
    try:
        paths = genmodel.fn_paths(ast, fa)
    except Exception:
        return None
    variants = set(ast.enum_variants("Expr")) if "Expr" in ast.enums else None
    ops = set(ast.enum_variants("Operation")) if "Operation" in ast.enums else None
    out = set()
    seen = False
    for kind, val, st in paths:
        for ev in st.events:
            if ev["kind"] != "call" or ev["callee"] != callee:
                continue
            for a in ev["args"]:
                if isinstance(a, Sym) and a.key in own_params:
                    seen = True
                    if variants is None or a.ty != "Expr":
                        return None
                    allowed, excl = st.cons.get(a.key, (None, frozenset()))
                    vs = set(allowed) if allowed is not None else variants - set(excl)
                    for v in vs:
                        if v == "BinOp" and ops is not None:
                            oa, oe = st.cons.get(a.key + ".op", (None, frozenset()))
                            for o in (set(oa) if oa is not None else ops - set(oe)):
                                out.add("BinOp:" + o)
                        else:
                            out.add(v)
    return out if seen else None


def _feasible_cycle(flat, kinds):
    """A cycle of pass-through edges along which the intersection of node kinds is non-empty."""
    for start in sorted(flat):
        stack = [(start, [start], None)]
        while stack:
            node, path, common = stack.pop()
            for b in sorted(flat.get(node, ())):
                k = kinds.get((node, b))
                c2 = common if k is None else (set(k) if common is None else common & k)
                if c2 is not None and not c2:
                    continue
                if b == start:
                    return path, c2
                if b in path:
                    continue
                stack.append((b, path + [b], c2))
    return None


# recursive cycles whose measure is not structural; each with the reason it is well-founded
# and the premises the rule still checks.
REC_EXCEPTIONS = {
    "generate_condition_16bits+generate_condition_ex":
        "generate_condition_ex enters generate_condition_16bits only for a 16-bit memory operand (Absolute with eight_bits == false, "
        "AbsoluteX/AbsoluteY of a 16-bit array); generate_condition_16bits calls back with the accumulator / cctmp result of the "
        "high-byte evaluation or the literal Tmp(false), against the literal Immediate(0): neither is a 16-bit memory operand, so the "
        "depth is at most 2.  Checked here: the literal operands of the call-backs and the literal A(false) of the self-calls.",
}


@rule("T-REC-BOUND", engine="mir", floor=9,
      text="every recursive cycle of the crate's resolved call graph (pest-generated parser excluded) is well-founded: a cycle over "
           "the parse tree / expression tree / statement tree contains at least one call whose tree argument is not the caller's own "
           "parameter (the callee works on a strict part of it); the include recursion of the preprocessor is cut by a test of the "
           "include stack's depth that precedes the push and the recursive call; the in-use traversal is cut by its visited set; "
           "asm()'s self-calls re-enter with constant arguments for which asm() does not recurse")
def t_rec_bound(mir, res, tier):
    from astlib import load_facts
    import genmodel
    ast = load_facts(mir.config, mir.repo)
    G = {}
    sites = {}
    for fn in mir.fns:
        src = _norm_mir(fn["path"])
        G.setdefault(src, set())
        for c in fn["calls"]:
            if "{closure" in c["callee"] and _norm_mir(c["callee"]) == src:
                continue  # a function (or closure) calling a closure it defines is not recursion
            d = _norm_mir(c["callee"])
            G[src].add(d)
            sites.setdefault((src, d), []).append(c)
    for comp in _sccs(G):
        if any("pest::Parser" in c for c in comp):
            continue
        names = sorted(c.split("::")[-1] for c in comp)
        key = "T-REC-BOUND:" + "+".join(names)
        edges = []
        for a in comp:
            for b in comp:
                for c in sites.get((a, b), []):
                    edges.append((a.split("::")[-1], b.split("::")[-1], c))
        sample = {"functions": names, "recursive_calls": len(edges)}
        afns = {}
        for nm in names:
            cands = ast.fns_named(nm)
            if len(cands) != 1:
                cands = [f for f in cands if any(f["file"].endswith(c["file"].split("/")[-1]) for (a, b, c) in edges if a == nm)] or cands
            afns[nm] = cands[0] if cands else None
        if any(v is None for v in afns.values()):
            res.fail(key + ":ANCHOR-MISSING", "(call graph)", "cannot find the syntax tree of %s" % [k for k, v in afns.items() if v is None])
            continue
        tree_params = {nm: [(i, p["name"].replace("mut ", "").strip()) for i, p in enumerate([p for p in afns[nm]["params"] if p["name"] != "self"]) if TREE_TY.search(p["ty"])] for nm in names}
        # ---- measure: explicit bound / visited / constant re-entry / tabled
        exc = REC_EXCEPTIONS.get("+".join(names))
        if all(tree_params[nm] for nm in names) or any(tree_params[nm] for nm in names) and not exc:
            # structural: flat edges (argument is the caller's own tree parameter) must not form a cycle
            flat = {}
            nsites = 0
            for a, b, c in edges:
                fa = afns[a]
                nodes = _call_nodes(fa, b, c["line"])
                if not nodes:
                    res.fail(key + ":site", "%s:%s" % (c["file"], c["line"]), "recursive call %s -> %s not found in the syntax tree" % (a, b))
                    continue
                for node in nodes:
                    nsites += 1
                    own = {nm for _, nm in tree_params[a]}
                    sh = _shadowed_at(fa, node) or set()
                    is_flat = True
                    if not tree_params[b]:
                        is_flat = True
                    for i, pn in tree_params[b]:
                        if i >= len(node["args"]):
                            continue
                        arg = node["args"][i]
                        e = arg
                        while e.get("k") in ("ref", "unary", "cast") or (e.get("k") == "mcall" and e["method"] in ("clone", "as_ref", "as_mut", "borrow", "to_owned") and not e["args"]):
                            e = e["e"] if e.get("k") != "mcall" else e["recv"]
                        if e.get("k") == "path" and len(e["segs"]) == 1 and e["segs"][0] in own and e["segs"][0] not in sh:
                            continue  # the caller's own parameter, passed on unchanged
                        if e.get("k") == "path" and e["segs"] == ["None"]:
                            continue
                        is_flat = False
                    if is_flat:
                        flat.setdefault(a, set()).add(b)
            sample["measure"] = "structural descent"
            sample["call_sites"] = nsites
            sample["pass_through_edges"] = sorted("%s->%s" % (a, b) for a, bs in flat.items() for b in bs)
            res.inst(key, True, sample)
            cyc = _sccs({a: flat.get(a, set()) for a in names})
            if cyc:
                # a pass-through cycle is harmless when the functions dispatch on disjoint kinds of
                # node: intersect, along the cycle, the node kinds under which each hand-over happens
                kinds = {}
                for a, bs in flat.items():
                    for b in bs:
                        kinds[(a, b)] = _edge_kinds(ast, afns[a], b, [nm for _, nm in tree_params[a]])
                sample["pass_through_kinds"] = {"%s->%s" % k: (sorted(v)[:6] if v is not None else "any") for k, v in kinds.items()}
                bad = _feasible_cycle(flat, kinds)
                if bad:
                    path, common = bad
                    res.fail(key, ast.where(afns[path[0]]),
                             "the functions %s hand their own tree parameter to each other unchanged, and for node kind(s) %s every one of them takes "
                             "that route: the recursion does not descend and overflows the stack" % (" -> ".join(path + [path[0]]), sorted(common)[:5] if common is not None else "(not determined)"), sample)
            continue
        if names == ["process"]:
            fa = afns["process"]
            okc = 0
            for a, b, c in edges:
                for node in _call_nodes(fa, b, c["line"]):
                    g = _depth_guard(fa, node)
                    if g is None:
                        res.fail(key + ":depth-bound", "%s:%s" % (c["file"], c["line"]),
                                 "the preprocessor calls itself for an #include with nothing bounding the nesting: a file that includes itself "
                                 "(or two files including each other without guards) recurses until the stack overflows; a test of the include "
                                 "stack's depth that returns an error is required before the push and the recursive call", sample)
                    else:
                        okc += 1
                        sample["bound"] = "%s.len() < %d" % g
            sample["measure"] = "explicit depth bound"
            res.inst(key, True, sample)
            continue
        if names == ["function_is_actually_in_use"]:
            fa = afns[names[0]]
            txt = re.sub(r"\s+", "", expr_text(fa["body"]))
            okv = False
            for n in walk(fa["body"]):
                if n.get("k") == "if":
                    ct = re.sub(r"\s+", "", expr_text(n["cond"]))
                    m = re.match(r"^!(\w+)\.contains\((\w+)\)$", ct) or re.match(r"^(\w+)\.get\((\w+)\)\.is_none\(\)$", ct)
                    if m and any(x.get("k") == "mcall" and x["method"] == "insert" and root_name(x["recv"]) == m.group(1) for x in walk(n["then"])) \
                            and any(x.get("k") in ("call", "mcall") and (x.get("method") == names[0] or (x.get("func", {}).get("segs") or [""])[-1] == names[0]) for x in walk(n["then"])):
                        # all recursive calls must be inside guarded regions
                        inside = sum(1 for x in walk(n["then"]) if x.get("k") in ("call", "mcall") and (x.get("method") == names[0] or (x.get("func", {}).get("segs") or [""])[-1] == names[0]))
                        total = sum(1 for x in walk(fa["body"]) if x.get("k") in ("call", "mcall") and (x.get("method") == names[0] or (x.get("func", {}).get("segs") or [""])[-1] == names[0]))
                        okv = inside == total
            sample["measure"] = "visited set (insert under a not-yet-contained test; also T-INUSE-CLOSURE)"
            res.inst(key, True, sample)
            if not okv:
                res.fail(key + ":visited", ast.where(fa), "the call-graph traversal recurses outside a `!set.contains(x)` test that also inserts x: recursive source functions make it recurse for ever", sample)
            continue
        if names == ["asm"]:
            rows, pn, fn = genmodel.asm_table(ast)
            rec = [r for r in rows if r["kind"] == "recursive"]
            sample["measure"] = "constant re-entry"
            sample["recursive_rows"] = len(rec)
            res.inst(key, True, sample)
            allmn = set(ast.enum_variants("AsmMnemonic"))
            for r in rec:
                txt = r["value"].key
                m = re.search(r"asm\s*\(\s*(\w+)\s*,\s*&?\s*ExprType\s*::\s*(\w+)", txt)
                if not m or m.group(1) not in allmn:
                    res.fail(key + ":constant-args", ast.where(fn), "a self-call of asm() does not pass a constant mnemonic and a literal operand kind (%s): nothing shows the re-entry terminates" % txt[:80], sample)
                    continue
                mn, kind = m.group(1), m.group(2)
                again = [q for q in rec if (q["mnemonics"] is None or mn in q["mnemonics"]) and (q["operand"] is None or kind in q["operand"])]
                if again:
                    res.fail(key + ":re-entry", ast.where(fn), "asm() calls itself with (%s, %s), and for these arguments asm() can call itself again: unbounded recursion" % (mn, kind), sample)
            continue
        if exc:
            sample["measure"] = "tabled"
            sample["exception"] = exc
            res.inst(key, True, sample)
            res.note("exception %s: %s" % ("+".join(names), exc))
            # premises
            for a, b, c in edges:
                for node in _call_nodes(afns[a], b, c["line"]):
                    args = [re.sub(r"\s+", "", expr_text(x)) for x in node["args"]]
                    if a == "generate_condition_16bits" and b == "generate_condition_ex":
                        if not (args[0].lstrip("&") in ("f", "ExprType::Tmp(false)") and args[2].lstrip("&") == "ExprType::Immediate(0)"):
                            res.fail(key + ":callback-operands", "%s:%s" % (c["file"], c["line"]),
                                     "generate_condition_16bits calls generate_condition_ex with operands (%s, %s) other than the high-byte result / Tmp(false) against Immediate(0): "
                                     "a 16-bit operand handed back re-enters generate_condition_16bits without end" % (args[0], args[2]), sample)
                    if a == b == "generate_condition_ex":
                        if args[0].lstrip("&") != "ExprType::A(false)":
                            res.fail(key + ":self-call-operand", "%s:%s" % (c["file"], c["line"]),
                                     "generate_condition_ex calls itself with left operand %s instead of the literal accumulator: nothing shows the re-entry takes another arm" % args[0], sample)
            continue
        sample["measure"] = "none recognised"
        res.inst(key, True, sample)
        res.fail(key + ":no-measure", ast.where(afns[names[0]]),
                 "%s recurse(s) without a tree-typed parameter to descend, without a depth bound and without a visited set: nothing bounds the recursion" % ", ".join(names), sample)
