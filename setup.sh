#!/bin/bash
# Build the extractors offline. Run once after a fresh restore.
set -e
cd "$(dirname "$0")"
export CARGO_NET_OFFLINE=true
(cd engines/astx && cargo build --release --offline 2>&1 | tail -3)
if [ -d engines/mirfacts ]; then
  (cd engines/mirfacts && cargo +nightly build --release --offline 2>&1 | tail -3)
fi
echo "setup done"
