#!/usr/bin/env python3
"""Rewrites the rule list at the head of every check's `technique` field in MANIFEST.json from rules/props.py, then validates the manifest."""
import json, sys, re, subprocess
sys.path.insert(0, '/verif/rules')
import core, props  # noqa
m = json.load(open('/verif/MANIFEST.json'))
for c in m['checks']:
    rules = [r[0] if isinstance(r, tuple) else r for r in core.PROPS[c["property_id"]]]
    t = c['technique']
    mm = re.match(r"static analysis: [^(]*\(", t)
    assert mm, c['property_id']
    c['technique'] = "static analysis: " + ", ".join(rules) + " (" + t[mm.end():]
json.dump(m, open('/verif/MANIFEST.json', 'w'), indent=1, ensure_ascii=False)
open('/verif/MANIFEST.json', 'a').write("\n")
print("rules:", len(core.RULES))
