#!/bin/bash
# usage: tools/save_seed.sh <Cxx> <name> "<needs>" "<caught-by or MISSED>"
ID="$1"; NAME="$2"; D=${SEEDBASE:-/tmp/seed}/$ID/out; T=/verif/seeded/$ID-$NAME
mkdir -p "$T"; cp "$D/patch.diff" "$T/patch.diff"; cp "$D/demo_test.rs" "$T/demo_test.rs"; cp "$D/README.md" "$T/README.agent.md" 2>/dev/null
python3 - "$ID" "$T" "$3" "$4" <<'PY'
import json,sys
pid,t,needs,caught=sys.argv[1:5]
json.dump({"property":pid,"origin":"independent sub-agent given only the property text and a scratch worktree",
 "needs_to_manifest":needs,
 "confirmed":"tools/confirm_seed.sh %s: existing 166 tests pass with the patch; demo_test.rs fails with the patch and passes without it"%pid,
 "checks_run":"tools/run_mutant.sh seeded/%s/patch.diff %s"%(t.split('/')[-1],pid),
 "result":caught},open(t+"/meta.json","w"),indent=1)
PY
echo saved $T
