#!/bin/bash
# Runs every patch listed in mutants/expect.tsv and seeded/*/patch.diff against the checks expected to catch it.
cd /verif
fail=0
while IFS=$'\t' read -r patch checks key; do
  [[ "$patch" =~ ^# ]] && continue
  [ -z "$patch" ] && continue
  out=$(tools/run_mutant.sh mutants/$patch $checks 2>&1)
  if echo "$out" | grep -qF "$key"; then echo "CAUGHT  $patch  ($key)"; else echo "MISSED  $patch  (expected $key)"; fail=1; fi
done < mutants/expect.tsv
for d in seeded/*/; do
  id=$(basename $d); prop=${id%%-*}
  if python3 -c "import json,sys;sys.exit(0 if json.load(open('$d/meta.json')).get('obsolete') else 1)" 2>/dev/null; then echo "SKIPPED $id (obsolete: the tree has changed so that this change no longer breaks the property)"; continue; fi
  extra=$(python3 -c "import json;print(' '.join(json.load(open('$d/meta.json')).get('also_run',[])))" 2>/dev/null)
  out=$(tools/run_mutant.sh $d/patch.diff $prop $extra 2>&1)
  if echo "$out" | grep -q "^VIOLATION"; then echo "CAUGHT  $id  $(echo "$out" | grep '^\s*\[' | head -2 | tr -s ' ' | tr '\n' ' ')"; else echo "MISSED  $id"; fail=1; fi
done
exit $fail
