#!/bin/bash
# Runs every patch listed in mutants/expect.tsv and seeded/*/patch.diff against the checks expected to catch it
# (each in its own scratch copy of /repo's HEAD; JOBS of them at a time).  Prints CAUGHT / MISSED / SKIPPED per patch,
# sorted, and exits 1 if anything was missed.
cd /verif
JOBS=${JOBS:-8}
one_mutant() {  # patch <TAB> checks <TAB> key
  IFS=$'\t' read -r patch checks key <<< "$1"
  out=$(tools/run_mutant.sh mutants/$patch $checks 2>&1)
  if echo "$out" | grep -qF "$key"; then echo "CAUGHT  $patch  ($key)"; else echo "MISSED  $patch  (expected $key)"; fi
}
one_seed() {  # seed directory
  d=$1; id=$(basename $d); prop=${id%%-*}
  if python3 -c "import json,sys;sys.exit(0 if json.load(open('$d/meta.json')).get('obsolete') else 1)" 2>/dev/null; then echo "SKIPPED $id (obsolete: the tree has changed so that this change no longer breaks the property)"; return; fi
  extra=$(python3 -c "import json;print(' '.join(json.load(open('$d/meta.json')).get('also_run',[])))" 2>/dev/null)
  out=$(tools/run_mutant.sh $d/patch.diff $prop $extra 2>&1)
  if echo "$out" | grep -q "^VIOLATION"; then echo "CAUGHT  $id  $(echo "$out" | grep '^\s*\[' | head -2 | tr -s ' ' | tr '\n' ' ')"; else echo "MISSED  $id  $(echo "$out" | grep -m1 '^error')"; fi
}
export -f one_mutant one_seed
OUT=$(mktemp /tmp/mutants-out.XXXXXX)
{
  grep -v '^#' mutants/expect.tsv | grep -v '^$' | tr '\n' '\0' | xargs -0 -P "$JOBS" -I{} bash -c 'one_mutant "$1"' _ {}
  ls -d seeded/*/ | xargs -P "$JOBS" -I{} bash -c 'one_seed "$1"' _ {}
} | sort > "$OUT"
cat "$OUT"
n=$(grep -c '^MISSED' "$OUT"); rm -f "$OUT"
[ "$n" = 0 ]
