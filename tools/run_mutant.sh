#!/bin/bash
# usage: tools/run_mutant.sh <patch-file> <Cxx> [<Cxx> ...]
# Applies a patch to a scratch copy of /repo (never to /repo itself), runs the given checks
# against the copy (VERIF_REPO), prints their verdicts, removes the copy.
set -e
PATCH="$(readlink -f "$1")"; shift
SCR="$(mktemp -d /tmp/mutant.XXXXXX)"
trap 'rm -rf "$SCR"' EXIT
(cd /repo && git archive HEAD) | tar -x -C "$SCR"
(cd "$SCR" && git init -q . && git apply --whitespace=nowarn "$PATCH")
cd /verif
for P in "$@"; do
  VERIF_EVIDENCE_DIR="$SCR/.evidence" VERIF_REPO="$SCR" python3 rules/main.py "$P" --tier "${TIER:-quick}" 2>&1 | sed "s#$SCR/##g" | grep -E "^\s+\[|^VIOLATION|^C[0-9]+ " | sed 's#replay=.*##' || true
done
