#!/bin/bash
# usage: tools/confirm_seed.sh <Cxx>   -- confirm a seeded change in its scratch worktree /tmp/seed/<Cxx>/wt
# (1) existing tests pass with the patch  (2) demo fails with the patch  (3) demo passes without it
ID="$1"; D=${SEEDBASE:-/tmp/seed}/$ID; WT=$D/wt; export CARGO_TARGET_DIR=$D/target CARGO_NET_OFFLINE=true
cd "$WT" || exit 2
git checkout -q -- . ; git apply --whitespace=nowarn "$D/out/patch.diff" || { echo "PATCH DOES NOT APPLY"; exit 2; }
T1=$(cargo test --offline 2>&1 | grep "^test result" | head -1)
echo "with patch, existing suite: $T1"
TARGET=src/lib.rs; grep -qi "cpp.rs" "$D/out/README.md" && grep -qi "tests. module of .\?src/cpp.rs\|into src/cpp.rs\|of src/cpp.rs" "$D/out/README.md" && TARGET=src/cpp.rs
[ -n "$2" ] && TARGET="$2"
add_demo() { python3 - "$TARGET" "$D/out/demo_test.rs" <<'PY'
import sys
p,d=sys.argv[1],sys.argv[2]
s=open(p).read().rstrip()
assert s.endswith('}')
s=s[:-1]+"\n"+open(d).read()+"\n}\n"
open(p,'w').write(s)
PY
}
add_demo
T2=$(cargo test --offline 2>&1 | grep "^test result\|^error" | head -1)
echo "with patch + demo ($TARGET): $T2"
git checkout -q -- . ; add_demo
T3=$(cargo test --offline 2>&1 | grep "^test result\|^error" | head -1)
echo "without patch + demo: $T3"
git checkout -q -- .
