#!/bin/bash
# Re-confirms every seeded change against /repo's HEAD in one scratch worktree:
#   existing tests pass with the patch; demo fails with the patch; demo passes without it.
# SHARD=i NSHARDS=n runs every n-th seed starting at i (several shards can run at once, each in its own worktree).
SHARD=${SHARD:-0}; NSHARDS=${NSHARDS:-1}
WT=$(mktemp -d /tmp/confirm.XXXXXX); export CARGO_TARGET_DIR=/tmp/confirm-target-$SHARD CARGO_NET_OFFLINE=true
cd /repo && git worktree add -q --detach "$WT" HEAD || exit 2
trap 'cd /repo; git worktree remove --force "$WT"; rm -rf /tmp/confirm-target-'$SHARD EXIT
cd "$WT"
add_demo() { # $1 seed dir
  if [ -f "$1/apply_demo.sh" ]; then
    python3 - "$1/demo_test.rs" <<'PY'
import sys,re
d=open(sys.argv[1]).read()
i=d.find("Paste into the `tests` module of src/cpp.rs")
i=d.rfind("\n",0,i)
parts={"src/lib.rs":d[:i],"src/cpp.rs":d[i:]}
for p,t in parts.items():
    s=open(p).read().rstrip(); assert s.endswith('}')
    open(p,'w').write(s[:-1]+"\n"+t+"\n}\n")
PY
  else
    T=$(python3 -c "import json;print(json.load(open('$1/meta.json')).get('demo_target','src/lib.rs'))")
    python3 - "$T" "$1/demo_test.rs" <<'PY'
import sys
p,d=sys.argv[1],sys.argv[2]
s=open(p).read().rstrip(); assert s.endswith('}')
open(p,'w').write(s[:-1]+"\n"+open(d).read()+"\n}\n")
PY
  fi
}
N=-1
for d in /verif/seeded/*/; do
  id=$(basename $d)
  N=$((N+1)); [ $((N % NSHARDS)) = "$SHARD" ] || continue
  FEAT=$(python3 -c "import json;m=json.load(open('$d/meta.json'));f=m.get('features') or ('atari2600' if 'atari2600' in m.get('demo_needs','') else '');print('--features '+f if f else '')")
  git checkout -q -- .; git apply --whitespace=nowarn $d/patch.diff || { echo "$id: PATCH DOES NOT APPLY"; continue; }
  a=$(cargo test --offline $FEAT 2>&1 | grep "^test result" | head -1 | sed 's/; 0 ignored.*//')
  add_demo $d
  b=$(cargo test --offline $FEAT 2>&1 | grep "^test result\|^error" | head -1 | sed 's/; [0-9]* ignored.*//')
  git checkout -q -- .; add_demo $d
  c=$(cargo test --offline $FEAT 2>&1 | grep "^test result\|^error" | head -1 | sed 's/; [0-9]* ignored.*//')
  echo "$id | patched suite: $a | patched+demo: $b | unpatched+demo: $c"
done
git checkout -q -- .
