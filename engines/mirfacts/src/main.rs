// mirfacts: rustc_private driver that dumps type-resolved facts of the analysed crate.
// Used as RUSTC_WORKSPACE_WRAPPER under `cargo +nightly check`; writes one JSON document to
// $MIRFACTS_OUT when compiling the crate named $MIRFACTS_CRATE (default cc6502).
// Facts: every call with its resolved callee, the type of its first argument and of the callee's
// generic arguments; every MIR assert (division/remainder by zero, bounds check); statics.
#![feature(rustc_private)]

extern crate rustc_driver;
extern crate rustc_hir;
extern crate rustc_interface;
extern crate rustc_middle;
extern crate rustc_span;

use rustc_driver::Compilation;
use rustc_hir::def::DefKind;
use rustc_middle::mir::{AssertKind, TerminatorKind};
use rustc_middle::ty::{self, Instance, TyCtxt};
use std::fmt::Write as _;

struct Cb;

fn esc(s: &str) -> String {
    let mut o = String::with_capacity(s.len() + 2);
    for c in s.chars() {
        match c {
            '"' => o.push_str("\\\""),
            '\\' => o.push_str("\\\\"),
            '\n' => o.push_str("\\n"),
            '\t' => o.push_str("\\t"),
            c if (c as u32) < 0x20 => {
                let _ = write!(o, "\\u{:04x}", c as u32);
            }
            c => o.push(c),
        }
    }
    o
}

fn loc(tcx: TyCtxt<'_>, span: rustc_span::Span) -> (String, usize, bool) {
    let sm = tcx.sess.source_map();
    let span0 = span.source_callsite();
    let p = sm.lookup_char_pos(span0.lo());
    let file = format!("{}", p.file.name.prefer_local_unconditionally());
    (file, p.line, span.from_expansion())
}

fn dump(tcx: TyCtxt<'_>) {
    let want = std::env::var("MIRFACTS_CRATE").unwrap_or_else(|_| "cc6502".to_string());
    let name = tcx.crate_name(rustc_hir::def_id::LOCAL_CRATE).to_string();
    if name != want {
        return;
    }
    let out = match std::env::var("MIRFACTS_OUT") {
        Ok(o) => o,
        Err(_) => return,
    };
    let mut fns = Vec::new();
    for ldid in tcx.hir_body_owners() {
        let did = ldid.to_def_id();
        let kind = tcx.def_kind(did);
        if !matches!(kind, DefKind::Fn | DefKind::AssocFn | DefKind::Closure) {
            continue;
        }
        let body = tcx.optimized_mir(did);
        let typing_env = ty::TypingEnv::post_analysis(tcx, did);
        let path = tcx.def_path_str(did);
        let (ffile, fline, _) = loc(tcx, tcx.def_span(did));
        let mut calls = Vec::new();
        let mut asserts = Vec::new();
        for bb in body.basic_blocks.iter() {
            let term = match &bb.terminator {
                Some(t) => t,
                None => continue,
            };
            match &term.kind {
                TerminatorKind::Call { func, args, .. } => {
                    let fty = func.ty(&body.local_decls, tcx);
                    let (file, line, exp) = loc(tcx, term.source_info.span);
                    let mut callee = String::new();
                    let mut generics = String::new();
                    let mut resolved = false;
                    if let ty::FnDef(def_id, gargs) = fty.kind() {
                        callee = tcx.def_path_str(*def_id);
                        generics = format!("{:?}", gargs);
                        if let Ok(Some(inst)) = Instance::try_resolve(tcx, typing_env, *def_id, gargs) {
                            callee = tcx.def_path_str(inst.def_id());
                            generics = format!("{:?}", inst.args);
                            resolved = true;
                        }
                    } else {
                        callee = format!("<indirect {}>", fty);
                    }
                    let arg0 = args
                        .get(0)
                        .map(|a| format!("{}", a.node.ty(&body.local_decls, tcx)))
                        .unwrap_or_default();
                    calls.push(format!(
                        "{{\"callee\":\"{}\",\"generics\":\"{}\",\"arg0\":\"{}\",\"file\":\"{}\",\"line\":{},\"expn\":{},\"resolved\":{}}}",
                        esc(&callee), esc(&generics), esc(&arg0), esc(&file), line, exp, resolved
                    ));
                }
                TerminatorKind::Assert { msg, .. } => {
                    let k = match &**msg {
                        AssertKind::DivisionByZero(_) => "DivisionByZero",
                        AssertKind::RemainderByZero(_) => "RemainderByZero",
                        AssertKind::BoundsCheck { .. } => "BoundsCheck",
                        AssertKind::Overflow(..) => "Overflow",
                        AssertKind::OverflowNeg(_) => "OverflowNeg",
                        _ => "Other",
                    };
                    let (file, line, exp) = loc(tcx, term.source_info.span);
                    asserts.push(format!("{{\"kind\":\"{}\",\"file\":\"{}\",\"line\":{},\"expn\":{}}}", k, esc(&file), line, exp));
                }
                _ => {}
            }
        }
        fns.push(format!(
            "{{\"path\":\"{}\",\"kind\":\"{:?}\",\"file\":\"{}\",\"line\":{},\"calls\":[{}],\"asserts\":[{}]}}",
            esc(&path), kind, esc(&ffile), fline, calls.join(","), asserts.join(",")
        ));
    }
    let mut statics = Vec::new();
    for id in tcx.hir_free_items() {
        let did = id.owner_id.to_def_id();
        if let DefKind::Static { mutability, .. } = tcx.def_kind(did) {
            let t = tcx.type_of(did).instantiate_identity().skip_normalization();
            statics.push(format!(
                "{{\"path\":\"{}\",\"mut\":{},\"ty\":\"{}\"}}",
                esc(&tcx.def_path_str(did)),
                mutability.is_mut(),
                esc(&format!("{}", t))
            ));
        }
    }
    let doc = format!("{{\"crate\":\"{}\",\"fns\":[{}],\"statics\":[{}]}}", esc(&name), fns.join(","), statics.join(","));
    let _ = std::fs::write(&out, doc);
}

impl rustc_driver::Callbacks for Cb {
    fn after_analysis<'tcx>(&mut self, _c: &rustc_interface::interface::Compiler, tcx: TyCtxt<'tcx>) -> Compilation {
        dump(tcx);
        Compilation::Continue
    }
}

fn main() {
    let mut args: Vec<String> = std::env::args().collect();
    // invoked as: mirfacts <path-to-rustc> <rustc args...>
    if args.len() > 1 && (args[1].ends_with("rustc") || args[1].contains("rustc")) {
        args.remove(1);
    }
    let mut cb = Cb;
    rustc_driver::run_compiler(&args, &mut cb);
}
