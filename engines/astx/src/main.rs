// astx: syntax-tree / grammar / regex extractor for the static checks in /verif.
//
//   astx dump <repo-root> <feature,feature,...|-> <out.json>
//        parses the crate rooted at <repo-root>/src/lib.rs following `mod` items,
//        evaluates #[cfg(..)] for the given feature set (cfg(test) is false),
//        parses every *.pest file next to the sources, writes one JSON document.
//   astx regex            reads a JSON array of pattern strings on stdin, writes
//                         a JSON array of regex-syntax ASTs (or {"error":..}).
//   astx file <file.rs> <features|-> <out.json>
//        same as dump but for a single stand-alone file (fixtures).
//
// Nothing here executes the analysed code.

use proc_macro2::Span;
use serde_json::{json, Map, Value};
use std::collections::BTreeSet;
use std::path::{Path, PathBuf};
use syn::punctuated::Punctuated;
use syn::spanned::Spanned;

struct Cx {
    features: BTreeSet<String>,
    fns: Vec<Value>,
    enums: Vec<Value>,
    structs: Vec<Value>,
    statics: Vec<Value>,
    consts: Vec<Value>,
    macros_seen: Vec<Value>,
    files: Vec<String>,
    errors: Vec<String>,
}

fn loc(sp: Span) -> String {
    let s = sp.start();
    format!("{}:{}", s.line, s.column + 1)
}

fn toks<T: quote::ToTokens>(t: &T) -> String {
    let s = t.to_token_stream().to_string();
    s
}

impl Cx {
    // ---- cfg evaluation -------------------------------------------------
    fn cfg_meta(&self, m: &syn::Meta) -> bool {
        match m {
            syn::Meta::Path(p) => {
                // bare flag: test, debug_assertions, ...  => false
                let _ = p;
                false
            }
            syn::Meta::NameValue(nv) => {
                if nv.path.is_ident("feature") {
                    if let syn::Expr::Lit(syn::ExprLit {
                        lit: syn::Lit::Str(s),
                        ..
                    }) = &nv.value
                    {
                        return self.features.contains(&s.value());
                    }
                }
                false
            }
            syn::Meta::List(l) => {
                let inner: Punctuated<syn::Meta, syn::Token![,]> =
                    match l.parse_args_with(Punctuated::parse_terminated) {
                        Ok(x) => x,
                        Err(_) => return false,
                    };
                if l.path.is_ident("not") {
                    inner.iter().next().map(|m| !self.cfg_meta(m)).unwrap_or(true)
                } else if l.path.is_ident("all") {
                    inner.iter().all(|m| self.cfg_meta(m))
                } else if l.path.is_ident("any") {
                    inner.iter().any(|m| self.cfg_meta(m))
                } else {
                    false
                }
            }
        }
    }

    fn cfg_ok(&self, attrs: &[syn::Attribute]) -> bool {
        for a in attrs {
            if a.path().is_ident("cfg") {
                if let syn::Meta::List(l) = &a.meta {
                    if let Ok(m) = l.parse_args::<syn::Meta>() {
                        if !self.cfg_meta(&m) {
                            return false;
                        }
                    } else {
                        return false;
                    }
                }
            }
        }
        true
    }

    // ---- patterns ----------------------------------------------------------
    fn pat(&self, p: &syn::Pat) -> Value {
        use syn::Pat::*;
        match p {
            Wild(_) => json!({"k":"wild"}),
            Ident(i) => {
                let mut m = Map::new();
                m.insert("k".into(), json!("ident"));
                m.insert("name".into(), json!(i.ident.to_string()));
                if i.by_ref.is_some() {
                    m.insert("by_ref".into(), json!(true));
                }
                if i.mutability.is_some() {
                    m.insert("mut".into(), json!(true));
                }
                if let Some((_, sub)) = &i.subpat {
                    m.insert("sub".into(), self.pat(sub));
                }
                Value::Object(m)
            }
            Path(pp) => json!({"k":"path","segs":path_segs(&pp.path)}),
            TupleStruct(ts) => json!({"k":"tstruct","segs":path_segs(&ts.path),
                "elems": ts.elems.iter().map(|e| self.pat(e)).collect::<Vec<_>>()}),
            Struct(s) => json!({"k":"struct","segs":path_segs(&s.path),
                "fields": s.fields.iter().map(|f| json!({"name": toks(&f.member), "pat": self.pat(&f.pat)})).collect::<Vec<_>>(),
                "rest": s.rest.is_some()}),
            Tuple(t) => json!({"k":"tuple","elems": t.elems.iter().map(|e| self.pat(e)).collect::<Vec<_>>()}),
            Lit(l) => json!({"k":"lit","v": lit_val(&l.lit), "ty": lit_ty(&l.lit)}),
            Or(o) => json!({"k":"or","alts": o.cases.iter().map(|e| self.pat(e)).collect::<Vec<_>>()}),
            Reference(r) => json!({"k":"ref","pat": self.pat(&r.pat)}),
            Paren(pp) => self.pat(&pp.pat),
            Range(r) => json!({"k":"range","text": toks(r)}),
            Rest(_) => json!({"k":"rest"}),
            Slice(s) => json!({"k":"slice","elems": s.elems.iter().map(|e| self.pat(e)).collect::<Vec<_>>()}),
            Type(t) => self.pat(&t.pat),
            Const(c) => json!({"k":"other","text": toks(c)}),
            Macro(m) => json!({"k":"other","text": toks(m)}),
            other => json!({"k":"other","text": toks(other)}),
        }
    }

    // ---- expressions -----------------------------------------------------
    fn block(&self, b: &syn::Block) -> Value {
        let mut stmts = Vec::new();
        for s in &b.stmts {
            if let Some(v) = self.stmt(s) {
                stmts.push(v);
            }
        }
        json!({"k":"block","stmts":stmts,"loc":loc(b.span())})
    }

    fn stmt(&self, s: &syn::Stmt) -> Option<Value> {
        match s {
            syn::Stmt::Local(l) => {
                if !self.cfg_ok(&l.attrs) {
                    return None;
                }
                let (pat, ty) = match &l.pat {
                    syn::Pat::Type(t) => (self.pat(&t.pat), Some(toks(&t.ty))),
                    p => (self.pat(p), None),
                };
                let mut m = Map::new();
                m.insert("k".into(), json!("let"));
                m.insert("pat".into(), pat);
                if let Some(t) = ty {
                    m.insert("ty".into(), json!(t));
                }
                if let Some(init) = &l.init {
                    m.insert("init".into(), self.expr(&init.expr));
                    if let Some((_, d)) = &init.diverge {
                        m.insert("else".into(), self.expr(d));
                    }
                }
                m.insert("loc".into(), json!(loc(l.span())));
                Some(Value::Object(m))
            }
            syn::Stmt::Item(_) => None,
            syn::Stmt::Expr(e, semi) => {
                if !self.cfg_ok(expr_attrs(e)) {
                    return None;
                }
                let mut v = self.expr(e);
                if semi.is_some() {
                    if let Value::Object(m) = &mut v {
                        m.insert("semi".into(), json!(true));
                    }
                }
                Some(v)
            }
            syn::Stmt::Macro(m) => {
                if !self.cfg_ok(&m.attrs) {
                    return None;
                }
                let mut v = self.mac(&m.mac);
                if let Value::Object(mm) = &mut v {
                    mm.insert("semi".into(), json!(true));
                }
                Some(v)
            }
        }
    }

    fn mac(&self, m: &syn::Macro) -> Value {
        let name = m
            .path
            .segments
            .last()
            .map(|s| s.ident.to_string())
            .unwrap_or_default();
        let mut o = Map::new();
        o.insert("k".into(), json!("macro"));
        o.insert("name".into(), json!(name.clone()));
        o.insert("tokens".into(), json!(m.tokens.to_string()));
        o.insert("loc".into(), json!(loc(m.span())));
        if name == "matches" {
            // matches!(expr, pat [if guard])
            let parsed = m.parse_body_with(|input: syn::parse::ParseStream| {
                let e: syn::Expr = input.parse()?;
                let _: syn::Token![,] = input.parse()?;
                let p = syn::Pat::parse_multi_with_leading_vert(input)?;
                let g: Option<syn::Expr> = if input.peek(syn::Token![if]) {
                    let _: syn::Token![if] = input.parse()?;
                    Some(input.parse()?)
                } else {
                    None
                };
                let _: Option<syn::Token![,]> = input.parse()?;
                Ok((e, p, g))
            });
            if let Ok((e, p, g)) = parsed {
                o.insert("e".into(), self.expr(&e));
                o.insert("pat".into(), self.pat(&p));
                if let Some(g) = g {
                    o.insert("guard".into(), self.expr(&g));
                }
            }
        } else if let Ok(args) =
            m.parse_body_with(Punctuated::<syn::Expr, syn::Token![,]>::parse_terminated)
        {
            o.insert(
                "args".into(),
                Value::Array(args.iter().map(|e| self.expr(e)).collect()),
            );
        }
        Value::Object(o)
    }

    fn expr(&self, e: &syn::Expr) -> Value {
        use syn::Expr::*;
        let l = loc(e.span());
        match e {
            Lit(x) => json!({"k":"lit","v":lit_val(&x.lit),"ty":lit_ty(&x.lit),"loc":l}),
            Path(p) => json!({"k":"path","segs":path_segs(&p.path),"loc":l}),
            Field(f) => json!({"k":"field","base":self.expr(&f.base),"name":toks(&f.member),"loc":l}),
            Index(i) => json!({"k":"index","base":self.expr(&i.expr),"idx":self.expr(&i.index),"loc":l}),
            Call(c) => json!({"k":"call","func":self.expr(&c.func),
                "args":c.args.iter().map(|a| self.expr(a)).collect::<Vec<_>>(),"loc":l}),
            MethodCall(c) => {
                let mut m = Map::new();
                m.insert("k".into(), json!("mcall"));
                m.insert("recv".into(), self.expr(&c.receiver));
                m.insert("method".into(), json!(c.method.to_string()));
                m.insert(
                    "args".into(),
                    Value::Array(c.args.iter().map(|a| self.expr(a)).collect()),
                );
                if let Some(t) = &c.turbofish {
                    m.insert("turbofish".into(), json!(toks(t)));
                }
                m.insert("loc".into(), json!(loc(c.method.span())));
                Value::Object(m)
            }
            Macro(m) => self.mac(&m.mac),
            Unary(u) => json!({"k":"unary","op":toks(&u.op),"e":self.expr(&u.expr),"loc":l}),
            Binary(b) => {
                let op = toks(&b.op);
                let is_assign_op = op.ends_with('=') && !matches!(op.as_str(), "==" | "!=" | "<=" | ">=");
                if is_assign_op {
                    json!({"k":"assignop","op":op.trim_end_matches('=').to_string(),"l":self.expr(&b.left),"r":self.expr(&b.right),"loc":l})
                } else {
                    json!({"k":"binary","op":op,"l":self.expr(&b.left),"r":self.expr(&b.right),"loc":l})
                }
            }
            Assign(a) => json!({"k":"assign","l":self.expr(&a.left),"r":self.expr(&a.right),"loc":l}),
            Reference(r) => json!({"k":"ref","mut":r.mutability.is_some(),"e":self.expr(&r.expr),"loc":l}),
            Paren(p) => self.expr(&p.expr),
            Group(g) => self.expr(&g.expr),
            If(i) => {
                let mut m = Map::new();
                m.insert("k".into(), json!("if"));
                m.insert("cond".into(), self.expr(&i.cond));
                m.insert("then".into(), self.block(&i.then_branch));
                if let Some((_, e)) = &i.else_branch {
                    m.insert("else".into(), self.expr(e));
                }
                m.insert("loc".into(), json!(l));
                Value::Object(m)
            }
            Let(x) => json!({"k":"letcond","pat":self.pat(&x.pat),"e":self.expr(&x.expr),"loc":l}),
            Match(m) => {
                let mut arms = Vec::new();
                for a in &m.arms {
                    if !self.cfg_ok(&a.attrs) {
                        continue;
                    }
                    let mut am = Map::new();
                    am.insert("pat".into(), self.pat(&a.pat));
                    if let Some((_, g)) = &a.guard {
                        am.insert("guard".into(), self.expr(g));
                    }
                    am.insert("body".into(), self.expr(&a.body));
                    am.insert("loc".into(), json!(loc(a.pat.span())));
                    arms.push(Value::Object(am));
                }
                json!({"k":"match","e":self.expr(&m.expr),"arms":arms,"loc":l})
            }
            Block(b) => self.block(&b.block),
            Unsafe(b) => self.block(&b.block),
            Loop(lp) => json!({"k":"loop","body":self.block(&lp.body),"loc":l}),
            While(w) => json!({"k":"while","cond":self.expr(&w.cond),"body":self.block(&w.body),"loc":l}),
            ForLoop(f) => json!({"k":"for","pat":self.pat(&f.pat),"iter":self.expr(&f.expr),"body":self.block(&f.body),"loc":l}),
            Return(r) => match &r.expr {
                Some(x) => json!({"k":"return","e":self.expr(x),"loc":l}),
                None => json!({"k":"return","loc":l}),
            },
            Break(b) => match &b.expr {
                Some(x) => json!({"k":"break","e":self.expr(x),"loc":l}),
                None => json!({"k":"break","loc":l}),
            },
            Continue(_) => json!({"k":"continue","loc":l}),
            Closure(c) => json!({"k":"closure",
                "params": c.inputs.iter().map(|p| self.pat(p)).collect::<Vec<_>>(),
                "body": self.expr(&c.body), "loc": l}),
            Struct(s) => {
                let mut fields = Vec::new();
                for f in &s.fields {
                    if !self.cfg_ok(&f.attrs) {
                        continue;
                    }
                    fields.push(json!({"name":toks(&f.member),"e":self.expr(&f.expr)}));
                }
                let mut m = Map::new();
                m.insert("k".into(), json!("struct"));
                m.insert("segs".into(), json!(path_segs(&s.path)));
                m.insert("fields".into(), Value::Array(fields));
                if let Some(r) = &s.rest {
                    m.insert("rest".into(), self.expr(r));
                }
                m.insert("loc".into(), json!(l));
                Value::Object(m)
            }
            Tuple(t) => json!({"k":"tuple","elems":t.elems.iter().map(|x| self.expr(x)).collect::<Vec<_>>(),"loc":l}),
            Array(a) => json!({"k":"array","elems":a.elems.iter().map(|x| self.expr(x)).collect::<Vec<_>>(),"loc":l}),
            Cast(c) => json!({"k":"cast","e":self.expr(&c.expr),"ty":toks(&c.ty),"loc":l}),
            Try(t) => json!({"k":"try","e":self.expr(&t.expr),"loc":l}),
            Range(r) => json!({"k":"range",
                "start": r.start.as_ref().map(|x| self.expr(x)),
                "end": r.end.as_ref().map(|x| self.expr(x)),
                "inclusive": matches!(r.limits, syn::RangeLimits::Closed(_)), "loc": l}),
            Repeat(r) => json!({"k":"repeat","e":self.expr(&r.expr),"len":self.expr(&r.len),"loc":l}),
            other => json!({"k":"other","text":toks(other),"loc":l}),
        }
    }

    // ---- items ------------------------------------------------------------
    fn sig_params(&self, sig: &syn::Signature) -> Vec<Value> {
        sig.inputs
            .iter()
            .map(|a| match a {
                syn::FnArg::Receiver(r) => {
                    json!({"name":"self","ty": if r.mutability.is_some() {"&mut Self"} else {"&Self"}})
                }
                syn::FnArg::Typed(t) => json!({"name":toks(&t.pat),"ty":toks(&t.ty)}),
            })
            .collect()
    }

    fn add_fn(
        &mut self,
        file: &str,
        modpath: &str,
        qual: &str,
        vis: &syn::Visibility,
        sig: &syn::Signature,
        body: &syn::Block,
    ) {
        let v = json!({
            "name": sig.ident.to_string(),
            "qual": qual,
            "mod": modpath,
            "file": file,
            "line": sig.ident.span().start().line,
            "vis": toks(vis),
            "params": self.sig_params(sig),
            "ret": match &sig.output { syn::ReturnType::Default => "()".to_string(), syn::ReturnType::Type(_, t) => toks(t) },
            "body": self.block(body),
        });
        self.fns.push(v);
    }

    fn items(&mut self, file: &str, dir: &Path, modpath: &str, items: &[syn::Item], is_mod_rs: bool, stem: &str) {
        for it in items {
            match it {
                syn::Item::Fn(f) => {
                    if !self.cfg_ok(&f.attrs) || has_test_attr(&f.attrs) {
                        continue;
                    }
                    self.add_fn(file, modpath, "", &f.vis, &f.sig, &f.block);
                }
                syn::Item::Impl(im) => {
                    if !self.cfg_ok(&im.attrs) {
                        continue;
                    }
                    let mut qual = toks(&im.self_ty);
                    if let Some((_, tr, _)) = &im.trait_ {
                        qual = format!("<{} as {}>", qual, toks(tr));
                    }
                    for ii in &im.items {
                        if let syn::ImplItem::Fn(f) = ii {
                            if !self.cfg_ok(&f.attrs) {
                                continue;
                            }
                            self.add_fn(file, modpath, &qual, &f.vis, &f.sig, &f.block);
                        }
                    }
                }
                syn::Item::Enum(e) => {
                    if !self.cfg_ok(&e.attrs) {
                        continue;
                    }
                    let mut vars = Vec::new();
                    for v in &e.variants {
                        if !self.cfg_ok(&v.attrs) {
                            continue;
                        }
                        let fields: Vec<Value> = v
                            .fields
                            .iter()
                            .map(|f| json!({"name": f.ident.as_ref().map(|i| i.to_string()), "ty": toks(&f.ty)}))
                            .collect();
                        vars.push(json!({"name": v.ident.to_string(), "fields": fields}));
                    }
                    self.enums.push(json!({"name": e.ident.to_string(), "mod": modpath, "file": file,
                        "line": e.ident.span().start().line, "variants": vars,
                        "attrs": e.attrs.iter().map(|a| toks(a)).collect::<Vec<_>>()}));
                }
                syn::Item::Struct(s) => {
                    if !self.cfg_ok(&s.attrs) {
                        continue;
                    }
                    let fields: Vec<Value> = s
                        .fields
                        .iter()
                        .filter(|f| self.cfg_ok(&f.attrs))
                        .map(|f| json!({"name": f.ident.as_ref().map(|i| i.to_string()), "ty": toks(&f.ty), "vis": toks(&f.vis)}))
                        .collect();
                    self.structs.push(json!({"name": s.ident.to_string(), "mod": modpath, "file": file,
                        "line": s.ident.span().start().line, "fields": fields}));
                }
                syn::Item::Static(s) => {
                    if !self.cfg_ok(&s.attrs) {
                        continue;
                    }
                    self.statics.push(json!({"name": s.ident.to_string(), "file": file,
                        "line": s.ident.span().start().line,
                        "mut": matches!(s.mutability, syn::StaticMutability::Mut(_)), "ty": toks(&s.ty)}));
                }
                syn::Item::Const(c) => {
                    if !self.cfg_ok(&c.attrs) {
                        continue;
                    }
                    self.consts.push(json!({"name": c.ident.to_string(), "file": file, "ty": toks(&c.ty), "e": self.expr(&c.expr)}));
                }
                syn::Item::Macro(m) => {
                    if !self.cfg_ok(&m.attrs) {
                        continue;
                    }
                    self.macros_seen.push(json!({"file": file, "name": toks(&m.mac.path), "line": m.span().start().line}));
                }
                syn::Item::Mod(m) => {
                    if !self.cfg_ok(&m.attrs) {
                        continue;
                    }
                    let name = m.ident.to_string();
                    let sub = if modpath.is_empty() { name.clone() } else { format!("{}::{}", modpath, name) };
                    if let Some((_, its)) = &m.content {
                        // inline module: files of nested `mod x;` live in dir/<name>/
                        let nd = if is_mod_rs { dir.join(&name) } else { dir.join(stem).join(&name) };
                        self.items(file, &nd, &sub, its, true, "");
                    } else {
                        let base = if is_mod_rs { dir.to_path_buf() } else { dir.join(stem) };
                        let c1 = base.join(format!("{}.rs", name));
                        let c2 = base.join(&name).join("mod.rs");
                        if c1.exists() {
                            self.file(&c1, &sub, false);
                        } else if c2.exists() {
                            self.file(&c2, &sub, true);
                        } else {
                            self.errors.push(format!("module file for `{}` not found under {}", sub, base.display()));
                        }
                    }
                }
                _ => {}
            }
        }
    }

    fn file(&mut self, path: &Path, modpath: &str, is_mod_rs: bool) {
        let src = match std::fs::read_to_string(path) {
            Ok(s) => s,
            Err(e) => {
                self.errors.push(format!("{}: {}", path.display(), e));
                return;
            }
        };
        let parsed = match syn::parse_file(&src) {
            Ok(f) => f,
            Err(e) => {
                self.errors.push(format!("{}: parse error: {}", path.display(), e));
                return;
            }
        };
        let fname = path.to_string_lossy().to_string();
        self.files.push(fname.clone());
        let dir = path.parent().unwrap_or(Path::new(".")).to_path_buf();
        let stem = path.file_stem().map(|s| s.to_string_lossy().to_string()).unwrap_or_default();
        let root = stem == "lib" || stem == "main" || is_mod_rs;
        self.items(&fname, &dir, modpath, &parsed.items, root, &stem);
    }
}

fn has_test_attr(attrs: &[syn::Attribute]) -> bool {
    attrs.iter().any(|a| a.path().is_ident("test"))
}

fn expr_attrs(e: &syn::Expr) -> &[syn::Attribute] {
    use syn::Expr::*;
    match e {
        Array(x) => &x.attrs,
        Assign(x) => &x.attrs,
        Binary(x) => &x.attrs,
        Block(x) => &x.attrs,
        Break(x) => &x.attrs,
        Call(x) => &x.attrs,
        Cast(x) => &x.attrs,
        Closure(x) => &x.attrs,
        Continue(x) => &x.attrs,
        Field(x) => &x.attrs,
        ForLoop(x) => &x.attrs,
        If(x) => &x.attrs,
        Index(x) => &x.attrs,
        Let(x) => &x.attrs,
        Lit(x) => &x.attrs,
        Loop(x) => &x.attrs,
        Macro(x) => &x.attrs,
        Match(x) => &x.attrs,
        MethodCall(x) => &x.attrs,
        Paren(x) => &x.attrs,
        Path(x) => &x.attrs,
        Range(x) => &x.attrs,
        Reference(x) => &x.attrs,
        Repeat(x) => &x.attrs,
        Return(x) => &x.attrs,
        Struct(x) => &x.attrs,
        Try(x) => &x.attrs,
        Tuple(x) => &x.attrs,
        Unary(x) => &x.attrs,
        Unsafe(x) => &x.attrs,
        While(x) => &x.attrs,
        _ => &[],
    }
}

fn path_segs(p: &syn::Path) -> Vec<String> {
    p.segments.iter().map(|s| s.ident.to_string()).collect()
}

fn lit_val(l: &syn::Lit) -> Value {
    match l {
        syn::Lit::Str(s) => json!(s.value()),
        syn::Lit::ByteStr(s) => json!(String::from_utf8_lossy(&s.value()).to_string()),
        syn::Lit::Byte(b) => json!(b.value()),
        syn::Lit::Char(c) => json!(c.value().to_string()),
        syn::Lit::Int(i) => match i.base10_parse::<i128>() {
            Ok(v) => {
                if v >= i64::MIN as i128 && v <= i64::MAX as i128 {
                    json!(v as i64)
                } else {
                    json!(v.to_string())
                }
            }
            Err(_) => json!(i.to_string()),
        },
        syn::Lit::Float(f) => json!(f.to_string()),
        syn::Lit::Bool(b) => json!(b.value),
        other => json!(toks(other)),
    }
}

fn lit_ty(l: &syn::Lit) -> &'static str {
    match l {
        syn::Lit::Str(_) => "str",
        syn::Lit::ByteStr(_) => "bytestr",
        syn::Lit::Byte(_) => "byte",
        syn::Lit::Char(_) => "char",
        syn::Lit::Int(_) => "int",
        syn::Lit::Float(_) => "float",
        syn::Lit::Bool(_) => "bool",
        _ => "other",
    }
}

// ---- pest grammar -----------------------------------------------------------

fn pest_expr(e: &pest_meta::ast::Expr) -> Value {
    use pest_meta::ast::Expr::*;
    match e {
        Str(s) => json!({"k":"str","v":s}),
        Insens(s) => json!({"k":"insens","v":s}),
        Range(a, b) => json!({"k":"range","a":a,"b":b}),
        Ident(s) => json!({"k":"ident","v":s}),
        PeekSlice(a, b) => json!({"k":"peekslice","a":a,"b":b}),
        PosPred(n) => json!({"k":"pospred","e":pest_expr(n)}),
        NegPred(n) => json!({"k":"negpred","e":pest_expr(n)}),
        Seq(a, b) => json!({"k":"seq","a":pest_expr(a),"b":pest_expr(b)}),
        Choice(a, b) => json!({"k":"choice","a":pest_expr(a),"b":pest_expr(b)}),
        Opt(n) => json!({"k":"opt","e":pest_expr(n)}),
        Rep(n) => json!({"k":"rep","e":pest_expr(n)}),
        RepOnce(n) => json!({"k":"rep1","e":pest_expr(n)}),
        RepExact(n, c) => json!({"k":"repn","e":pest_expr(n),"min":c,"max":c}),
        RepMin(n, c) => json!({"k":"repn","e":pest_expr(n),"min":c,"max":Value::Null}),
        RepMax(n, c) => json!({"k":"repn","e":pest_expr(n),"min":0,"max":c}),
        RepMinMax(n, a, b) => json!({"k":"repn","e":pest_expr(n),"min":a,"max":b}),
        Skip(v) => json!({"k":"skip","v":v}),
        Push(n) => json!({"k":"push","e":pest_expr(n)}),
    }
}

fn pest_file(path: &Path) -> Value {
    let src = match std::fs::read_to_string(path) {
        Ok(s) => s,
        Err(e) => return json!({"file": path.to_string_lossy(), "error": e.to_string()}),
    };
    let pairs = match pest_meta::parser::parse(pest_meta::parser::Rule::grammar_rules, &src) {
        Ok(p) => p,
        Err(e) => return json!({"file": path.to_string_lossy(), "error": format!("{}", e)}),
    };
    let rules = match pest_meta::parser::consume_rules(pairs) {
        Ok(r) => r,
        Err(es) => {
            return json!({"file": path.to_string_lossy(), "error": format!("{:?}", es.iter().map(|e| e.to_string()).collect::<Vec<_>>())})
        }
    };
    let mut out = Vec::new();
    for r in &rules {
        use pest_meta::ast::RuleType::*;
        let ty = match r.ty {
            Normal => "normal",
            Silent => "silent",
            Atomic => "atomic",
            CompoundAtomic => "compound_atomic",
            NonAtomic => "non_atomic",
        };
        // line of the definition: first line whose first token is the rule name followed by '='
        let mut line = 0;
        for (i, l) in src.lines().enumerate() {
            let t = l.trim_start();
            if let Some(rest) = t.strip_prefix(r.name.as_str()) {
                if rest.trim_start().starts_with('=') {
                    line = i + 1;
                    break;
                }
            }
        }
        out.push(json!({"name": r.name, "ty": ty, "line": line, "expr": pest_expr(&r.expr)}));
    }
    json!({"file": path.to_string_lossy(), "rules": out})
}

// ---- regex ASTs ---------------------------------------------------------------

fn re_ast(a: &regex_syntax::ast::Ast) -> Value {
    use regex_syntax::ast::Ast::*;
    use regex_syntax::ast::*;
    match a {
        Empty(_) => json!({"k":"empty"}),
        Flags(f) => json!({"k":"flags","text":format!("{:?}", f.flags.items.iter().map(|i| format!("{:?}", i.kind)).collect::<Vec<_>>())}),
        Literal(l) => json!({"k":"lit","c":l.c.to_string()}),
        Dot(_) => json!({"k":"dot"}),
        Assertion(x) => {
            let kind = match x.kind {
                AssertionKind::StartLine => "start_line",
                AssertionKind::EndLine => "end_line",
                AssertionKind::StartText => "start_text",
                AssertionKind::EndText => "end_text",
                AssertionKind::WordBoundary => "word_boundary",
                AssertionKind::NotWordBoundary => "not_word_boundary",
                _ => "other",
            };
            json!({"k":"assert","kind":kind})
        }
        ClassUnicode(c) => json!({"k":"class_unicode","neg":c.negated,"text":format!("{:?}", c.kind)}),
        ClassPerl(c) => {
            let kind = match c.kind {
                ClassPerlKind::Digit => "digit",
                ClassPerlKind::Space => "space",
                ClassPerlKind::Word => "word",
            };
            json!({"k":"class_perl","neg":c.negated,"kind":kind})
        }
        ClassBracketed(c) => json!({"k":"class","neg":c.negated,"set":re_set(&c.kind)}),
        Repetition(r) => {
            let op = match &r.op.kind {
                RepetitionKind::ZeroOrOne => json!("?"),
                RepetitionKind::ZeroOrMore => json!("*"),
                RepetitionKind::OneOrMore => json!("+"),
                RepetitionKind::Range(rr) => json!(format!("{:?}", rr)),
            };
            json!({"k":"rep","op":op,"greedy":r.greedy,"e":re_ast(&r.ast)})
        }
        Group(g) => {
            let (kind, name) = match &g.kind {
                GroupKind::CaptureIndex(i) => ("capture", json!(i)),
                GroupKind::CaptureName { name, .. } => ("named", json!(name.name)),
                GroupKind::NonCapturing(_) => ("noncapture", Value::Null),
            };
            json!({"k":"group","kind":kind,"name":name,"e":re_ast(&g.ast)})
        }
        Alternation(x) => json!({"k":"alt","es":x.asts.iter().map(re_ast).collect::<Vec<_>>()}),
        Concat(x) => json!({"k":"concat","es":x.asts.iter().map(re_ast).collect::<Vec<_>>()}),
    }
}

fn re_set(s: &regex_syntax::ast::ClassSet) -> Value {
    use regex_syntax::ast::*;
    match s {
        ClassSet::Item(i) => re_set_item(i),
        ClassSet::BinaryOp(b) => json!({"k":"binop","text":format!("{:?}", b.kind),"l":re_set(&b.lhs),"r":re_set(&b.rhs)}),
    }
}

fn re_set_item(i: &regex_syntax::ast::ClassSetItem) -> Value {
    use regex_syntax::ast::*;
    match i {
        ClassSetItem::Empty(_) => json!({"k":"empty"}),
        ClassSetItem::Literal(l) => json!({"k":"lit","c":l.c.to_string()}),
        ClassSetItem::Range(r) => json!({"k":"range","a":r.start.c.to_string(),"b":r.end.c.to_string()}),
        ClassSetItem::Ascii(a) => json!({"k":"ascii","neg":a.negated,"text":format!("{:?}", a.kind)}),
        ClassSetItem::Unicode(u) => json!({"k":"unicode","neg":u.negated,"text":format!("{:?}", u.kind)}),
        ClassSetItem::Perl(p) => {
            let kind = match p.kind {
                ClassPerlKind::Digit => "digit",
                ClassPerlKind::Space => "space",
                ClassPerlKind::Word => "word",
            };
            json!({"k":"perl","neg":p.negated,"kind":kind})
        }
        ClassSetItem::Bracketed(b) => json!({"k":"class","neg":b.negated,"set":re_set(&b.kind)}),
        ClassSetItem::Union(u) => json!({"k":"union","items":u.items.iter().map(re_set_item).collect::<Vec<_>>()}),
    }
}

fn find_pest(dir: &Path, out: &mut Vec<PathBuf>) {
    if let Ok(rd) = std::fs::read_dir(dir) {
        let mut entries: Vec<_> = rd.flatten().map(|e| e.path()).collect();
        entries.sort();
        for p in entries {
            if p.is_dir() {
                find_pest(&p, out);
            } else if p.extension().map(|e| e == "pest").unwrap_or(false) {
                out.push(p);
            }
        }
    }
}

fn main() {
    let args: Vec<String> = std::env::args().collect();
    if args.len() < 2 {
        eprintln!("usage: astx dump|file|regex ...");
        std::process::exit(2);
    }
    match args[1].as_str() {
        "regex" => {
            let mut s = String::new();
            use std::io::Read;
            std::io::stdin().read_to_string(&mut s).unwrap();
            let pats: Vec<String> = serde_json::from_str(&s).expect("JSON array of strings");
            let mut out = Vec::new();
            for p in pats {
                let mut parser = regex_syntax::ast::parse::Parser::new();
                match parser.parse(&p) {
                    Ok(a) => out.push(json!({"pattern": p, "ast": re_ast(&a)})),
                    Err(e) => out.push(json!({"pattern": p, "error": e.to_string()})),
                }
            }
            println!("{}", serde_json::to_string(&out).unwrap());
        }
        "dump" | "file" => {
            if args.len() < 5 {
                eprintln!("usage: astx {} <path> <features|-> <out.json>", args[1]);
                std::process::exit(2);
            }
            let feats: BTreeSet<String> = if args[3] == "-" {
                BTreeSet::new()
            } else {
                args[3].split(',').filter(|s| !s.is_empty()).map(|s| s.to_string()).collect()
            };
            let mut cx = Cx {
                features: feats.clone(),
                fns: vec![],
                enums: vec![],
                structs: vec![],
                statics: vec![],
                consts: vec![],
                macros_seen: vec![],
                files: vec![],
                errors: vec![],
            };
            let mut grammars = Vec::new();
            if args[1] == "dump" {
                let root = PathBuf::from(&args[2]);
                let lib = root.join("src").join("lib.rs");
                cx.file(&lib, "", true);
                let mut pests = Vec::new();
                find_pest(&root.join("src"), &mut pests);
                for p in pests {
                    grammars.push(pest_file(&p));
                }
            } else {
                cx.file(Path::new(&args[2]), "", true);
            }
            let doc = json!({
                "features": feats.iter().collect::<Vec<_>>(),
                "files": cx.files,
                "errors": cx.errors,
                "fns": cx.fns,
                "enums": cx.enums,
                "structs": cx.structs,
                "statics": cx.statics,
                "consts": cx.consts,
                "item_macros": cx.macros_seen,
                "grammars": grammars,
            });
            std::fs::write(&args[4], serde_json::to_string(&doc).unwrap()).expect("write output");
        }
        _ => {
            eprintln!("unknown subcommand");
            std::process::exit(2);
        }
    }
}
